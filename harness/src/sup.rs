// Supervised worker processes: a crash (stack overflow, abort) or hang of the code under test is DATA.
// The master re-executes this binary as `gv worker <kind>`; each worker answers one line per input line.
use std::{
    io::{BufRead, BufReader, Write},
    process::{Child, ChildStdin, ChildStdout, Command, Stdio},
    sync::{atomic::{AtomicUsize, Ordering}, mpsc, Mutex},
    time::Duration,
};

pub enum Answer {
    Line(String),
    Crash(String), // the worker died while working on this case (message = last stderr line)
    Timeout,
}

struct Worker {
    child: Child,
    stdin: ChildStdin,
    rx: mpsc::Receiver<Option<String>>,
}

fn spawn(kind: &str, extra: &[String]) -> Worker {
    let exe = std::env::current_exe().unwrap();
    let mut child = Command::new(exe)
        .arg("worker")
        .arg(kind)
        .args(extra)
        // glibc's trimming (madvise / brk churn) makes page faults dominate under 16 parallel workers in this VM
        .env("MALLOC_TRIM_THRESHOLD_", "2000000000")
        .env("MALLOC_TOP_PAD_", "268435456")
        .env("MALLOC_MMAP_THRESHOLD_", "1073741824")
        .stdin(Stdio::piped())
        .stdout(Stdio::piped())
        .stderr(Stdio::null())
        .spawn()
        .expect("cannot spawn worker");
    let stdin = child.stdin.take().unwrap();
    let stdout: ChildStdout = child.stdout.take().unwrap();
    let (tx, rx) = mpsc::channel();
    std::thread::spawn(move || {
        let mut r = BufReader::new(stdout);
        loop {
            let mut line = String::new();
            match r.read_line(&mut line) {
                Ok(0) | Err(_) => {
                    let _ = tx.send(None);
                    break;
                }
                Ok(_) => {
                    if tx.send(Some(line.trim_end().to_string())).is_err() {
                        break;
                    }
                }
            }
        }
    });
    Worker { child, stdin, rx }
}

// Run all items through `nworkers` supervised workers; answers in input order.
// the per-case limit is on the worker's CPU time, so a loaded machine cannot turn a slow case into a "time-out"
pub fn run(kind: &str, extra: &[String], items: &[String], timeout: Duration) -> Vec<Answer> {
    run_full(kind, extra, items, timeout, 128, true)
}

// CPU seconds (user + system) consumed so far by process `pid`, from /proc (robust against a loaded machine, unlike wall time)
fn cpu_seconds(pid: u32) -> f64 {
    let Ok(stat) = std::fs::read_to_string(format!("/proc/{pid}/stat")) else { return 0.0 };
    let Some(rest) = stat.rsplit(')').next() else { return 0.0 };
    let f: Vec<&str> = rest.split_whitespace().collect();
    let ticks: f64 = f.get(11).and_then(|x| x.parse::<f64>().ok()).unwrap_or(0.0) + f.get(12).and_then(|x| x.parse::<f64>().ok()).unwrap_or(0.0);
    ticks / 100.0
}

// like recv_timeout, but the limit is on the worker's CPU time since `cpu0` (wall-clock cap = 30 x the limit)
fn recv_cpu_limited(w: &Worker, cpu0: f64, limit: Duration) -> Result<Option<String>, ()> {
    let wall = std::time::Instant::now();
    loop {
        match w.rx.recv_timeout(Duration::from_millis(100)) {
            Ok(x) => return Ok(x),
            Err(mpsc::RecvTimeoutError::Disconnected) => return Ok(None),
            Err(mpsc::RecvTimeoutError::Timeout) => {
                if cpu_seconds(w.child.id()) - cpu0 > limit.as_secs_f64() || wall.elapsed() > limit * 30 {
                    return Err(());
                }
            }
        }
    }
}

pub fn run_batched(kind: &str, extra: &[String], items: &[String], timeout: Duration, batch: usize) -> Vec<Answer> {
    run_full(kind, extra, items, timeout, batch, false)
}

pub fn run_cpu_limited(kind: &str, extra: &[String], items: &[String], cpu_limit: Duration) -> Vec<Answer> {
    run_full(kind, extra, items, cpu_limit, 1, true)
}

pub fn run_full(kind: &str, extra: &[String], items: &[String], timeout: Duration, batch: usize, cpu: bool) -> Vec<Answer> {
    let n = crate::util::nthreads().min(items.len().max(1));
    let next = AtomicUsize::new(0);
    let out: Mutex<Vec<(usize, Answer)>> = Mutex::new(Vec::with_capacity(items.len()));
    std::thread::scope(|s| {
        for _ in 0..n {
            s.spawn(|| {
                let mut w = spawn(kind, extra);
                let mut local = vec![];
                let batch_size: usize = batch;
                loop {
                    let i0 = next.fetch_add(batch_size, Ordering::Relaxed);
                    if i0 >= items.len() {
                        break;
                    }
                    let hi = (i0 + batch_size).min(items.len());
                    let mut i = i0;
                    // send the rest of the batch, read the answers in order; the case being worked on when the
                    // worker dies is the crasher, the remainder is sent again to a fresh worker
                    while i < hi {
                        let mut buf = String::new();
                        for it in &items[i..hi] {
                            buf.push_str(it);
                            buf.push('\n');
                        }
                        let ok = w.stdin.write_all(buf.as_bytes()).and_then(|_| w.stdin.flush()).is_ok();
                        let mut failed = !ok;
                        while !failed && i < hi {
                            let cpu0 = if cpu { cpu_seconds(w.child.id()) } else { 0.0 };
                            let got = if cpu { recv_cpu_limited(&w, cpu0, timeout).map_err(|_| mpsc::RecvTimeoutError::Timeout) } else { w.rx.recv_timeout(timeout) };
                            match got {
                                Ok(Some(l)) => {
                                    local.push((i, Answer::Line(l)));
                                    i += 1;
                                }
                                Ok(None) => {
                                    local.push((i, Answer::Crash(format!("worker exited: {:?}", w.child.wait().ok()))));
                                    i += 1;
                                    failed = true;
                                }
                                Err(_) => {
                                    local.push((i, Answer::Timeout));
                                    i += 1;
                                    failed = true;
                                }
                            }
                        }
                        if failed {
                            if !ok {
                                local.push((i, Answer::Crash("worker not accepting input".into())));
                                i += 1;
                            }
                            let _ = w.child.kill();
                            let _ = w.child.wait();
                            w = spawn(kind, extra);
                        }
                    }
                }
                drop(w.stdin);
                let _ = w.child.wait();
                out.lock().unwrap().extend(local);
            });
        }
    });
    let mut v = out.into_inner().unwrap();
    v.sort_by_key(|(i, _)| *i);
    v.into_iter().map(|(_, a)| a).collect()
}

// worker side: answer every stdin line with exactly one stdout line, on a thread with gram's own stack budget
pub fn serve(f: impl Fn(&str) -> String + Send + 'static) {
    // a runaway case of the code under test must not take the machine down: address space capped (GV_WORKER_MEM_GB, default 16)
    let gb: u64 = std::env::var("GV_WORKER_MEM_GB").ok().and_then(|x| x.parse().ok()).unwrap_or(16);
    let lim = libc::rlimit { rlim_cur: gb << 30, rlim_max: gb << 30 };
    unsafe { libc::setrlimit(libc::RLIMIT_AS, &lim) };
    let h = std::thread::Builder::new()
        .stack_size(16 * 1024 * 1024)
        .spawn(move || {
            let stdin = std::io::stdin();
            let stdout = std::io::stdout();
            for line in stdin.lock().lines() {
                let Ok(line) = line else { break };
                let ans = f(&line);
                let mut o = stdout.lock();
                let _ = writeln!(o, "{ans}");
                let _ = o.flush();
            }
        })
        .unwrap();
    let _ = h.join();
}
