// C08: the parser's name resolution against GramScope's verdict on named surface terms.
use crate::{parser, tj, tokenizer, util};
use serde_json::{json, Value};

const POOLS: [[&str; 2]; 4] = [["a", "b"], ["iff", "int2"], ["\u{e9}", "\u{3bb}x"], ["type_", "_x"]];

// indices of variable occurrences in source order, and the number of unresolved holes
fn walk(v: &Value, idx: &mut Vec<u64>, holes: &mut u64) {
    match v["k"].as_str().unwrap() {
        "var" => idx.push(v["i"].as_u64().unwrap()),
        "hole" => *holes += 1,
        "lam" | "pi" | "app" | "bin" => {
            walk(&v["a"], idx, holes);
            walk(&v["b"], idx, holes);
        }
        "neg" => walk(&v["a"], idx, holes),
        "if" => {
            walk(&v["c"], idx, holes);
            walk(&v["a"], idx, holes);
            walk(&v["b"], idx, holes);
        }
        "let" => {
            for d in v["defs"].as_array().unwrap() {
                walk(&d["ann"], idx, holes);
                walk(&d["def"], idx, holes);
            }
            walk(&v["b"], idx, holes);
        }
        _ => {}
    }
}

// gv replay-scope <tlc-output> <out.json>
pub fn replay(args: &[String]) {
    util::quiet_panics();
    let lines = util::tagged_lines(&args[0], "SCOPE");
    let results = util::par_map(&lines, |i, line| {
        let rec = util::parse_tlc_line(line, "SCOPE").expect("bad SCOPE line");
        let pool = POOLS[i % 4];
        let text: String = rec["toks"].as_array().unwrap().iter().map(|t| match t.as_str().unwrap() { "a" => pool[0], "b" => pool[1], o => o }).collect::<Vec<_>>().join(" ");
        let want_err = rec["errs"].as_u64().unwrap();
        let r = util::guarded(|| {
            let toks = tokenizer::tokenize(None, &text).map_err(|e| format!("lex: {}", e.len()))?;
            match parser::parse(None, &text, &toks[..], &[]) {
                Ok(t) => Ok(Ok(tj::tj_with(&t, &mut tj::HoleIds::default(), false))),
                Err(e) => Ok::<_, String>(Err((e.len(), e.iter().map(crate::diag::plain).map(|m| m.lines().next().unwrap_or("").to_string()).collect::<Vec<_>>()))),
            }
        });
        let bad = match r {
            Err(p) => Some(json!({"what": "parser panicked", "panic": p})),
            Ok(Err(l)) => Some(json!({"what": "harness: lexemes did not tokenise", "msg": l})),
            Ok(Ok(Ok(t))) => {
                if want_err > 0 {
                    Some(json!({"what": "accepted although a name is unbound or bound again", "got": t}))
                } else {
                    let (mut idx, mut holes) = (vec![], 0);
                    walk(&t, &mut idx, &mut holes);
                    let want_idx: Vec<u64> = rec["idx"].as_array().unwrap().iter().map(|x| x.as_u64().unwrap()).collect();
                    if idx != want_idx {
                        Some(json!({"what": "a variable is bound to the wrong binder", "want_idx": want_idx, "got_idx": idx}))
                    } else if holes != rec["holes"].as_u64().unwrap() {
                        Some(json!({"what": "wrong number of holes for `_` / omitted annotations", "want": rec["holes"], "got": holes}))
                    } else {
                        None
                    }
                }
            }
            Ok(Ok(Err((n, msgs)))) => {
                let scoping = msgs.iter().all(|m| m.contains("not in scope") || m.contains("already exists"));
                if want_err == 0 {
                    Some(json!({"what": "rejected although every name is bound exactly once in scope", "errors": msgs}))
                } else if !scoping {
                    Some(json!({"what": "rejected, but not (only) with scoping diagnostics", "errors": msgs}))
                } else {
                    let _ = n;
                    None
                }
            }
        };
        bad.map(|mut b| {
            b["text"] = json!(text);
            b["spec_errors"] = json!(want_err);
            b
        })
    });
    let bad: Vec<Value> = results.into_iter().flatten().collect();
    let sample = lines.get(lines.len() / 2).and_then(|l| util::parse_tlc_line(l, "SCOPE"));
    let out = json!({"cases": lines.len(), "mismatches": bad.len(), "first": bad.iter().take(60).collect::<Vec<_>>(), "sample": sample});
    std::fs::write(&args[1], serde_json::to_string(&out).unwrap()).unwrap();
}

// ---- direction B: random deep named terms (sibling scopes re-using names, groups nested in definitions,
// annotations and bodies).  TLC recomputes the tokens (GramScope!U) and the verdict (GramScope!R).
use rand::{rngs::StdRng, seq::SliceRandom, Rng, SeedableRng};

const NAMES: [&str; 6] = ["a", "b", "c", "d", "e", "_"];

fn gen_named(r: &mut StdRng, depth: usize, budget: &mut i64, scope: &mut Vec<&'static str>, slot: &str) -> Value {
    *budget -= 1;
    let leaf = *budget <= 0 || depth > 40;
    // mostly well-scoped choices, with a small rate of deliberate faults
    let fault = r.gen_bool(0.03);
    let pick_use = |r: &mut StdRng, scope: &Vec<&'static str>| -> &'static str {
        let inscope: Vec<&'static str> = scope.iter().copied().filter(|n| *n != "_").collect();
        if fault || inscope.is_empty() { NAMES[r.gen_range(0..5)] } else { inscope[r.gen_range(0..inscope.len())] }
    };
    let pick_bind = |r: &mut StdRng, scope: &Vec<&'static str>| -> &'static str {
        let free: Vec<&'static str> = NAMES.iter().copied().filter(|n| *n == "_" || !scope.contains(n)).collect();
        if fault || free.is_empty() { NAMES[r.gen_range(0..6)] } else { free[r.gen_range(0..free.len())] }
    };
    let k = if leaf { r.gen_range(0..3) } else { r.gen_range(0..12) };
    let value_only = slot == "val";
    match (k, value_only) {
        (0, _) => json!({"k": "type"}),
        (1, false) => json!({"k": "hole"}),
        (2, false) | (3, false) => json!({"k": "var", "n": pick_use(r, scope)}),
        (4, _) | (5, _) | (1, true) | (2, true) | (3, true) => {
            let n = pick_bind(r, scope);
            let hasann = r.gen_bool(0.6);
            let ann = if hasann { gen_named(r, depth, budget, scope, "any") } else { json!({"k": "noann"}) };
            scope.push(n);
            let b = gen_named(r, depth + 1, budget, scope, "any");
            scope.pop();
            json!({"k": "lam", "n": n, "ann": ann, "b": b})
        }
        (6, _) => {
            let n = pick_bind(r, scope);
            let a = gen_named(r, depth, budget, scope, "any");
            scope.push(n);
            let b = gen_named(r, depth + 1, budget, scope, "any");
            scope.pop();
            json!({"k": "pi", "n": n, "a": a, "b": b})
        }
        (7, false) => {
            let a = gen_named(r, depth, budget, scope, "any");
            scope.push("_");
            let b = gen_named(r, depth + 1, budget, scope, "any");
            scope.pop();
            json!({"k": "ndpi", "a": a, "b": b})
        }
        (8, false) | (9, false) => json!({"k": "app", "a": gen_named(r, depth, budget, scope, "any"), "b": gen_named(r, depth, budget, scope, "any")}),
        (_, false) => {
            // a group: chain of 1..3 unparenthesised lets; all names are in scope everywhere in the group
            let n = r.gen_range(1..4);
            let mut names = vec![];
            for _ in 0..n {
                let mut s2 = scope.clone();
                s2.extend(names.iter().copied());
                names.push(pick_bind(r, &s2));
            }
            let base = scope.len();
            scope.extend(names.iter().copied());
            let mut parts = vec![];
            for _ in 0..n {
                let hasann = r.gen_bool(0.5);
                let ann = if hasann { gen_named(r, depth + n, budget, scope, "any") } else { json!({"k": "noann"}) };
                let d = gen_named(r, depth + n, budget, scope, "val");
                parts.push((ann, d));
            }
            let mut body = gen_named(r, depth + n, budget, scope, "any");
            // a let directly in body position must be parenthesised to stay its own group
            if body["k"] == "let" {
                body["p"] = json!(true);
            }
            scope.truncate(base);
            let mut t = body;
            for (j, (ann, d)) in parts.into_iter().enumerate().rev() {
                t = json!({"k": "let", "n": names[j], "ann": ann, "d": d, "b": t, "p": false});
            }
            t
        }
        _ => json!({"k": "type"}),
    }
}

fn unparse_named(t: &Value, out: &mut Vec<String>) {
    let push = |out: &mut Vec<String>, s: &str| out.push(s.to_string());
    match t["k"].as_str().unwrap() {
        "type" => push(out, "type"),
        "hole" => push(out, "_"),
        "var" => push(out, t["n"].as_str().unwrap()),
        "lam" => {
            if t["ann"]["k"] == "noann" {
                push(out, "(");
                push(out, t["n"].as_str().unwrap());
                push(out, "=>");
            } else {
                push(out, "(");
                push(out, "(");
                push(out, t["n"].as_str().unwrap());
                push(out, ":");
                unparse_named(&t["ann"], out);
                push(out, ")");
                push(out, "=>");
            }
            unparse_named(&t["b"], out);
            push(out, ")");
        }
        "pi" => {
            push(out, "(");
            push(out, "(");
            push(out, t["n"].as_str().unwrap());
            push(out, ":");
            unparse_named(&t["a"], out);
            push(out, ")");
            push(out, "->");
            unparse_named(&t["b"], out);
            push(out, ")");
        }
        "ndpi" => {
            push(out, "(");
            unparse_named(&t["a"], out);
            push(out, "->");
            unparse_named(&t["b"], out);
            push(out, ")");
        }
        "app" => {
            push(out, "(");
            unparse_named(&t["a"], out);
            unparse_named(&t["b"], out);
            push(out, ")");
        }
        "let" => {
            push(out, "(");
            unparse_let(t, out);
            push(out, ")");
        }
        k => panic!("named kind {k}"),
    }
}

fn unparse_let(t: &Value, out: &mut Vec<String>) {
    out.push(t["n"].as_str().unwrap().to_string());
    if t["ann"]["k"] != "noann" {
        out.push(":".into());
        unparse_named(&t["ann"], out);
    }
    out.push("=".into());
    unparse_named(&t["d"], out);
    out.push(";".into());
    if t["b"]["k"] == "let" && t["b"]["p"] != json!(true) {
        unparse_let(&t["b"], out);
    } else {
        unparse_named(&t["b"], out);
    }
}

// gv record-scope <seed> <count> <max-nodes> <trace.ndjson>
pub fn record(args: &[String]) {
    util::quiet_panics();
    let seed: u64 = args[0].parse().unwrap();
    let count: usize = args[1].parse().unwrap();
    let maxn: i64 = args[2].parse().unwrap();
    let mut r = StdRng::seed_from_u64(seed);
    let mut out = String::new();
    let mut i = 0;
    while i < count {
        let mut budget = r.gen_range(8..=maxn);
        let t = gen_named(&mut r, 0, &mut budget, &mut vec![], "any");
        let mut toks = vec![];
        unparse_named(&t, &mut toks);
        let pool = POOLS[i % 4];
        let text: String = toks.iter().map(|t| match t.as_str() { "a" => pool[0], "b" => pool[1], o => o }).collect::<Vec<_>>().join(" ");
        let obs = util::guarded(|| {
            let toks = tokenizer::tokenize(None, &text).map_err(|_| ())?;
            Ok::<_, ()>(match parser::parse(None, &text, &toks[..], &[]) {
                Ok(pt) => {
                    let (mut idx, mut holes) = (vec![], 0);
                    walk(&tj::tj_with(&pt, &mut tj::HoleIds::default(), false), &mut idx, &mut holes);
                    json!({"ok": true, "idx": idx, "holes": holes})
                }
                Err(e) => {
                    let scoping = e.iter().all(|m| m.message.contains("not in scope") || m.message.contains("already exists"));
                    json!({"ok": false, "nerr": e.len(), "scoping": scoping})
                }
            })
        });
        let obs = match obs {
            Ok(Ok(o)) => o,
            Ok(Err(())) => continue,
            Err(p) => json!({"ok": false, "panic": p, "nerr": 0, "scoping": false}),
        };
        out += &format!("{}\n", json!({"ev": "scope", "t": t, "toks": toks, "obs": obs}));
        i += 1;
    }
    std::fs::write(&args[3], out).unwrap();
}
