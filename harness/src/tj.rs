// Projection between gram's `Term` and the JSON shape of the TLA+ specification's term records
// (spec/GramTerm.tla).  No semantics lives here: only (de)serialisation.
use crate::term::{Term, Variant, Variant::*};
use num_bigint::{BigInt, Sign};
use serde_json::{json, Map, Value};
use std::{cell::RefCell, collections::HashMap, rc::Rc};

pub type Cell<'a> = Rc<RefCell<Option<Term<'a>>>>;

pub fn leak(s: &str) -> &'static str {
    Box::leak(s.to_owned().into_boxed_str())
}

// exact integers: sign + limbs base 10^4, least significant first (spec/GramInt.tla)
pub fn big(n: &BigInt) -> Value {
    let s = n.magnitude().to_string();
    let bytes = s.as_bytes();
    let mut limbs = vec![];
    let mut end = bytes.len();
    while end > 0 {
        let start = end.saturating_sub(4);
        limbs.push(std::str::from_utf8(&bytes[start..end]).unwrap().parse::<u32>().unwrap());
        end = start;
    }
    while limbs.len() > 1 && *limbs.last().unwrap() == 0 {
        limbs.pop();
    }
    let sign = match n.sign() {
        Sign::Minus => -1,
        Sign::NoSign => 0,
        Sign::Plus => 1,
    };
    json!({"s": sign, "m": limbs})
}

pub fn unbig(v: &Value) -> BigInt {
    let s = v["s"].as_i64().unwrap();
    let mut text = String::new();
    let limbs = v["m"].as_array().unwrap();
    for (k, l) in limbs.iter().rev().enumerate() {
        let l = l.as_u64().unwrap();
        if k == 0 {
            text += &format!("{l}");
        } else {
            text += &format!("{l:04}");
        }
    }
    let n: BigInt = text.parse().unwrap();
    if s < 0 { -n } else { n }
}

// Hole identities: pointer -> small stable id within one projection session.
#[derive(Default)]
pub struct HoleIds {
    pub ids: HashMap<usize, u64>,
    pub cells: Vec<usize>,
}
impl HoleIds {
    pub fn id_of(&mut self, cell: &Cell) -> u64 {
        let p = Rc::as_ptr(cell) as usize;
        let n = self.ids.len() as u64 + 1;
        let id = *self.ids.entry(p).or_insert(n);
        if id == n {
            self.cells.push(p);
        }
        id
    }
}

fn bin(op: &str, a: &Term, b: &Term, h: &mut HoleIds, resolve: bool) -> Value {
    json!({"k":"bin","op":op,"a":tj_with(a, h, resolve),"b":tj_with(b, h, resolve)})
}

// Term -> JSON.  With `resolve`, a solved hole is logged as its solution raised by its shift
// (the reading the statements use: "filling the holes with the solutions it recorded").
pub fn tj_with(t: &Term, h: &mut HoleIds, resolve: bool) -> Value {
    match &t.variant {
        Unifier(cell, sh) => {
            let sub = { cell.borrow().clone() };
            if let (Some(sub), true) = (sub, resolve) {
                tj_with(&crate::de_bruijn::unsigned_shift(&sub, 0, *sh), h, resolve)
            } else {
                json!({"k":"hole","id": h.id_of(cell), "sh": sh})
            }
        }
        Type => json!({"k":"type"}),
        Variable(n, i) => json!({"k":"var","i":i,"n":ascii(n)}),
        Lambda(n, imp, d, b) => {
            json!({"k":"lam","n":ascii(n),"imp":imp,"a":tj_with(d, h, resolve),"b":tj_with(b, h, resolve)})
        }
        Pi(n, imp, d, b) => {
            json!({"k":"pi","n":ascii(n),"imp":imp,"a":tj_with(d, h, resolve),"b":tj_with(b, h, resolve)})
        }
        Application(f, a) => json!({"k":"app","a":tj_with(f, h, resolve),"b":tj_with(a, h, resolve)}),
        Let(defs, b) => json!({"k":"let","defs": defs.iter().map(|(n,a,d)| json!({"n":ascii(n),"ann":tj_with(a, h, resolve),"def":tj_with(d, h, resolve)})).collect::<Vec<_>>(), "b": tj_with(b, h, resolve)}),
        Integer => json!({"k":"int"}),
        IntegerLiteral(n) => json!({"k":"lit","v":big(n)}),
        Negation(a) => json!({"k":"neg","a":tj_with(a, h, resolve)}),
        Sum(a, b) => bin("sum", a, b, h, resolve),
        Difference(a, b) => bin("diff", a, b, h, resolve),
        Product(a, b) => bin("prod", a, b, h, resolve),
        Quotient(a, b) => bin("quot", a, b, h, resolve),
        LessThan(a, b) => bin("lt", a, b, h, resolve),
        LessThanOrEqualTo(a, b) => bin("le", a, b, h, resolve),
        EqualTo(a, b) => bin("eq", a, b, h, resolve),
        GreaterThan(a, b) => bin("gt", a, b, h, resolve),
        GreaterThanOrEqualTo(a, b) => bin("ge", a, b, h, resolve),
        Boolean => json!({"k":"bool"}),
        True => json!({"k":"true"}),
        False => json!({"k":"false"}),
        If(c, a, b) => json!({"k":"if","c":tj_with(c, h, resolve),"a":tj_with(a, h, resolve),"b":tj_with(b, h, resolve)}),
    }
}

pub fn tj(t: &Term) -> Value {
    tj_with(t, &mut HoleIds::default(), true)
}

// Everything that crosses the TLC boundary is ASCII (SANY / ToJson / ndJsonDeserialize mangle the rest).
pub fn ascii(s: &str) -> String {
    if s.is_ascii() {
        s.to_owned()
    } else {
        s.chars()
            .map(|c| if c.is_ascii() { c.to_string() } else { format!("U{:04X}", c as u32) })
            .collect()
    }
}

// JSON -> Term.  Holes with equal ids share one cell.
pub struct Builder {
    pub cells: HashMap<u64, Cell<'static>>,
}
impl Builder {
    pub fn new() -> Self {
        Builder { cells: HashMap::new() }
    }
    pub fn cell(&mut self, id: u64) -> Cell<'static> {
        self.cells.entry(id).or_insert_with(|| Rc::new(RefCell::new(None))).clone()
    }
    pub fn term(&mut self, v: &Value) -> Term<'static> {
        let k = v["k"].as_str().unwrap();
        let rc = |b: &mut Builder, x: &Value| Rc::new(b.term(x));
        let name = |x: &Value| -> &'static str {
            match x.get("n").and_then(Value::as_str) {
                Some(s) => leak(s),
                None => "x",
            }
        };
        let variant: Variant<'static> = match k {
            "hole" => {
                let id = v["id"].as_u64().unwrap();
                Unifier(self.cell(id), v["sh"].as_u64().unwrap() as usize)
            }
            "type" => Type,
            "int" => Integer,
            "bool" => Boolean,
            "true" => True,
            "false" => False,
            "var" => Variable(name(v), v["i"].as_u64().unwrap() as usize),
            "lit" => IntegerLiteral(unbig(&v["v"])),
            "lam" => Lambda(name(v), v["imp"].as_bool().unwrap_or(false), rc(self, &v["a"]), rc(self, &v["b"])),
            "pi" => Pi(name(v), v["imp"].as_bool().unwrap_or(false), rc(self, &v["a"]), rc(self, &v["b"])),
            "app" => Application(rc(self, &v["a"]), rc(self, &v["b"])),
            "neg" => Negation(rc(self, &v["a"])),
            "if" => If(rc(self, &v["c"]), rc(self, &v["a"]), rc(self, &v["b"])),
            "let" => {
                let defs = v["defs"]
                    .as_array()
                    .unwrap()
                    .iter()
                    .map(|d| (name(d), rc(self, &d["ann"]), rc(self, &d["def"])))
                    .collect();
                Let(defs, rc(self, &v["b"]))
            }
            "bin" => {
                let a = rc(self, &v["a"]);
                let b = rc(self, &v["b"]);
                match v["op"].as_str().unwrap() {
                    "sum" => Sum(a, b),
                    "diff" => Difference(a, b),
                    "prod" => Product(a, b),
                    "quot" => Quotient(a, b),
                    "lt" => LessThan(a, b),
                    "le" => LessThanOrEqualTo(a, b),
                    "eq" => EqualTo(a, b),
                    "gt" => GreaterThan(a, b),
                    "ge" => GreaterThanOrEqualTo(a, b),
                    o => panic!("unknown op {o}"),
                }
            }
            o => panic!("unknown term kind {o}"),
        };
        Term { source_range: None, variant }
    }
}

pub fn from_json(v: &Value) -> Term<'static> {
    Builder::new().term(v)
}

// Structural equality of two JSON terms ignoring binder/variable names.
pub fn same_shape(a: &Value, b: &Value) -> bool {
    match (a, b) {
        (Value::Object(x), Value::Object(y)) => {
            let keys = |m: &Map<String, Value>| {
                let mut k: Vec<&String> = m.keys().filter(|k| k.as_str() != "n").collect();
                k.sort();
                k.into_iter().cloned().collect::<Vec<String>>()
            };
            let kx = keys(x);
            kx == keys(y) && kx.iter().all(|k| same_shape(&x[k], &y[k]))
        }
        (Value::Array(x), Value::Array(y)) => x.len() == y.len() && x.iter().zip(y).all(|(p, q)| same_shape(p, q)),
        _ => a == b,
    }
}
