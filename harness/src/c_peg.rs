// The packrat parser against its specification (spec/GramPeg.tla).
//  replay-peg : every token string TLC enumerates, with the syntax errors the specification prescribes for it (position,
//               expectation, order), through the real tokenize + parse; the diagnostics are read back from the messages.
//  record-peg : larger inputs (mutated sentences, random token soup, nesting families); the guarded hook in cache_return!
//               delivers every result stored in the memo table; TLC (Trace_Peg) re-derives each entry from the entries it
//               depends on and the final diagnostics from the table.
use crate::{c_lex, c_parse, diag, error::Error, parser, token::Token, tokenizer, util};
use rand::{rngs::StdRng, Rng, SeedableRng};
use serde_json::{json, Value};

fn expectation_id(x: &str) -> String {
    let x = x.trim().trim_matches('`');
    match x {
        "a variable" => "IDENTIFIER".into(),
        "an expression" => "EXPR".into(),
        "the end of the file" => "EOF".into(),
        _ if x.contains("or a line break followed by an expression") => "TERMINATOR".into(),
        _ => c_parse::TERMINALS.iter().find(|k| !matches!(**k, "IDENTIFIER" | "INTEGER_LITERAL") && c_parse::lexeme(k, 0, None) == x).map_or_else(|| format!("?{x}"), |k| (*k).to_string()),
    }
}

// token index whose text starts at byte `start`; `len` for the empty range at the end of the input
fn token_at(toks: &[Token], start: usize, end: usize) -> i64 {
    if let Some(i) = toks.iter().position(|t| t.source_range.start == start && start < end) {
        return i as i64;
    }
    if toks.last().is_none_or(|t| t.source_range.end <= start) {
        return toks.len() as i64;
    }
    toks.iter().position(|t| t.source_range.start == start).map_or(-1, |i| i as i64)
}

// a diagnostic of the syntax stage as the specification names it: {p, e, at}; None for diagnostics of later stages
pub fn syntax_error(text: &str, toks: &[Token], err: &Error) -> Option<Value> {
    let plain = diag::plain(err);
    let body = plain.trim_start_matches("[Error]").trim_start();
    if let Some(rest) = body.strip_prefix("Expected ") {
        let cut = [", but the file is empty.", " at the end of the file.", " at the end of this line:", ", but encountered "].iter().filter_map(|s| rest.find(s)).min()?;
        let e = expectation_id(&rest[..cut]);
        let p = if toks.is_empty() { 0 } else { diag::error_range(text, err).map_or(-1, |(s, t)| token_at(toks, s, t)) };
        return Some(json!({"p": p, "e": e, "at": p}));
    }
    if body.starts_with("This parenthesis was never closed:") {
        let (first, second) = match err.message.find("It was expected to be closed") {
            Some(i) => (&err.message[..i], Some(&err.message[i..])),
            None => (&err.message[..], None),
        };
        let p = diag::absolute_range(text, &diag::marked_lines(first)).map_or(-1, |(s, t)| token_at(toks, s, t));
        let at = match second {
            Some(m) => diag::absolute_range(text, &diag::marked_lines(m)).map_or(-1, |(s, t)| token_at(toks, s, t)),
            None => toks.len() as i64,
        };
        return Some(json!({"p": p, "e": "UNCLOSED", "at": at}));
    }
    None
}

fn text_of(kinds: &[&str]) -> String {
    kinds.iter().enumerate().map(|(i, k)| c_parse::lexeme(k, i + 1, None)).collect::<Vec<_>>().join(" ")
}

// Runs the real front end on the token kinds; returns (syntax errors as the specification names them | lexer mismatch, memo log)
fn observe(kinds: &[&str], with_memo: bool) -> Result<(Vec<Value>, Value, usize), String> {
    let text = text_of(kinds);
    let toks = tokenizer::tokenize(None, &text).map_err(|_| "lex".to_string())?;
    if toks.len() != kinds.len() || toks.iter().zip(kinds).any(|(t, k)| c_lex::kind_of(&t.variant) != *k) {
        return Err("lex".into());
    }
    let names: Vec<String> = kinds.iter().enumerate().filter(|(_, k)| **k == "IDENTIFIER").map(|(i, _)| format!("x{}", i + 1)).collect();
    let ctx: Vec<&str> = names.iter().map(String::as_str).collect();
    start_log(with_memo);
    let r = util::guarded(|| parser::parse(None, &text, &toks[..], &ctx[..]));
    let (memo, dups) = take_log();
    let errs = match r {
        Err(p) => return Err(format!("panic: {p}")),
        Ok(Ok(_)) => vec![],
        Ok(Err(es)) => {
            let syn: Vec<Value> = es.iter().filter_map(|e| syntax_error(&text, &toks, e)).collect();
            if !syn.is_empty() && syn.len() != es.len() {
                return Err("syntax and later-stage diagnostics mixed".into());
            }
            syn
        }
    };
    Ok((errs, memo, dups))
}

#[cfg(all(feature = "verif", have_memo_log))]
fn start_log(on: bool) { if on { crate::verif_hooks::memo_log_start(); } }
#[cfg(all(feature = "verif", have_memo_log))]
fn take_log() -> (Value, usize) {
    let recs = crate::verif_hooks::memo_log_take();
    let mut m = serde_json::Map::new();
    let mut dups = 0;
    for (seq, r) in recs.iter().enumerate() {
        let key = format!("{}@{}", r.nonterminal, r.start);
        if m.insert(key, json!({"nt": r.nonterminal, "start": r.start, "ok": r.ok, "next": r.next, "conf": r.confident, "ne": r.errors, "seq": seq + 1})).is_some() {
            dups += 1;
        }
    }
    (Value::Object(m), dups)
}
#[cfg(not(all(feature = "verif", have_memo_log)))]
fn start_log(_on: bool) {}
#[cfg(not(all(feature = "verif", have_memo_log)))]
fn take_log() -> (Value, usize) { (json!({}), 0) }

// gv replay-peg <tlc-output> <result.json>
pub fn replay(args: &[String]) {
    colored::control::set_override(true);
    util::quiet_panics();
    let lines = util::tagged_lines(&args[0], "PEG");
    let results = util::par_map(&lines, |_, line| {
        let rec = util::parse_tlc_line(line, "PEG").expect("PEG line");
        let kinds: Vec<&str> = rec["y"].as_array().unwrap().iter().map(|v| v.as_str().unwrap()).collect();
        let want = rec["errs"].as_array().unwrap().clone();
        match observe(&kinds, false) {
            Err(w) if w == "lex" => (0u8, Value::Null),
            Err(w) => (2, json!({"text": text_of(&kinds), "what": w, "want": want, "tag": "C14"})),
            Ok((got, _, _)) => {
                if got == want {
                    (1, if want.len() >= 2 { json!({"text": text_of(&kinds), "errs": want}) } else { Value::Null })
                } else {
                    let what = if want.is_empty() { "the specification's parser accepts this token string, the real parser reports a syntax error" } else if got.is_empty() { "the specification's parser reports syntax errors, the real parser reports none" } else { "syntax diagnostics differ from the specification's (position / expectation / order)" };
                    let tag = if want.is_empty() || got.is_empty() { "C07" } else { "C15" };
                    (2, json!({"text": text_of(&kinds), "what": what, "want": want, "got": got, "tag": tag}))
                }
            }
        }
    });
    let n = results.iter().filter(|r| r.0 != 0).count();
    let rejected = lines.len() - results.iter().filter(|r| r.0 == 0).count();
    let bad: Vec<&Value> = results.iter().filter(|r| r.0 == 2).map(|r| &r.1).collect();
    let sample = results.iter().find(|r| r.0 == 1 && !r.1.is_null()).map(|r| r.1.clone());
    let multi = results.iter().filter(|r| r.0 == 1 && !r.1.is_null()).count();
    let out = json!({"strings": lines.len(), "compared": n, "lex_skipped": lines.len() - rejected, "mismatches": bad.len(), "several_errors_agreeing": multi, "first": bad.iter().take(400).collect::<Vec<_>>(), "sample": sample});
    std::fs::write(&args[1], out.to_string()).unwrap();
}

const ATOMS: [&str; 7] = ["TYPE", "IDENTIFIER", "INTEGER", "INTEGER_LITERAL", "BOOLEAN", "TRUE", "FALSE"];
const BINOPS: [&str; 9] = ["PLUS", "MINUS", "ASTERISK", "SLASH", "LESS_THAN", "LESS_THAN_OR_EQUAL", "DOUBLE_EQUALS", "GREATER_THAN", "GREATER_THAN_OR_EQUAL"];

// a random sentence of the grammar (by construction), `d` bounds the nesting
fn sentence(r: &mut StdRng, d: usize, out: &mut Vec<&'static str>) {
    let c = if d == 0 { r.gen_range(0..2) } else { r.gen_range(0..14) };
    match c {
        0 | 1 => out.push(ATOMS[r.gen_range(0..ATOMS.len())]),
        2 => { out.push("LEFT_PAREN"); sentence(r, d - 1, out); out.push("RIGHT_PAREN"); }
        3 => { atomish(r, d - 1, out); out.push(BINOPS[r.gen_range(0..BINOPS.len())]); atomish(r, d - 1, out); }
        4 => { atomish(r, d - 1, out); atomish(r, d - 1, out); if r.gen_bool(0.4) { atomish(r, d - 1, out); } }
        5 => { out.push("MINUS"); atomish(r, d - 1, out); }
        6 => { out.push("IF"); sentence(r, d - 1, out); out.push("THEN"); sentence(r, d - 1, out); out.push("ELSE"); sentence(r, d - 1, out); }
        7 => { out.push("IDENTIFIER"); out.push("THICK_ARROW"); sentence(r, d - 1, out); }
        8 => { let (o, c) = if r.gen_bool(0.5) { ("LEFT_PAREN", "RIGHT_PAREN") } else { ("LEFT_CURLY", "RIGHT_CURLY") };
               out.push(o); out.push("IDENTIFIER"); out.push("COLON"); jumbo(r, d - 1, out); out.push(c); out.push(if r.gen_bool(0.5) { "THICK_ARROW" } else { "THIN_ARROW" }); sentence(r, d - 1, out); }
        9 => { out.push("LEFT_CURLY"); out.push("IDENTIFIER"); out.push("RIGHT_CURLY"); out.push("THICK_ARROW"); sentence(r, d - 1, out); }
        10 => { atomish(r, d - 1, out); out.push("THIN_ARROW"); sentence(r, d - 1, out); }
        11 | 12 => { out.push("IDENTIFIER"); if r.gen_bool(0.5) { out.push("COLON"); atomish(r, d - 1, out); } out.push("EQUALS"); sentence(r, d - 1, out); out.push("TERMINATOR"); sentence(r, d - 1, out); }
        _ => { atomish(r, d - 1, out); out.push(BINOPS[r.gen_range(0..4)]); atomish(r, d - 1, out); out.push(BINOPS[r.gen_range(0..4)]); atomish(r, d - 1, out); }
    }
}
fn atomish(r: &mut StdRng, d: usize, out: &mut Vec<&'static str>) {
    if d > 0 && r.gen_bool(0.35) { out.push("LEFT_PAREN"); sentence(r, d - 1, out); out.push("RIGHT_PAREN"); } else { out.push(ATOMS[r.gen_range(0..ATOMS.len())]); }
}
fn jumbo(r: &mut StdRng, d: usize, out: &mut Vec<&'static str>) {
    // anything but an unparenthesised definition
    let mut t = vec![];
    sentence(r, d, &mut t);
    if t.len() > 2 && t[0] == "IDENTIFIER" && (t[1] == "EQUALS" || t[1] == "COLON") { out.push("LEFT_PAREN"); out.extend(t); out.push("RIGHT_PAREN"); } else { out.extend(t); }
}

// gv record-peg <count> <seed> <trace.ndjson>
pub fn record(args: &[String]) {
    colored::control::set_override(true);
    util::quiet_panics();
    let count: usize = args[0].parse().unwrap();
    let seed: u64 = args[1].parse().unwrap();
    let mut r = StdRng::seed_from_u64(seed);
    let mut inputs: Vec<Vec<&'static str>> = vec![vec![]];
    while inputs.len() < count {
        let mut s = vec![];
        let depth = r.gen_range(1..6);
        sentence(&mut r, depth, &mut s);
        if s.len() > 70 { continue; }
        inputs.push(s.clone());
        // mutants: delete / replace / insert / truncate, one to three times
        for _ in 0..3 {
            let mut m = s.clone();
            for _ in 0..r.gen_range(1..4) {
                if m.is_empty() { break; }
                let i = r.gen_range(0..m.len());
                match r.gen_range(0..5) {
                    0 => { m.remove(i); }
                    1 => { m[i] = c_parse::TERMINALS[r.gen_range(0..28)]; }
                    2 => { m.insert(i, c_parse::TERMINALS[r.gen_range(0..28)]); }
                    3 => { m.truncate(i); }
                    _ => { let j = r.gen_range(0..m.len()); m.swap(i, j); }
                }
            }
            inputs.push(m);
        }
        if r.gen_bool(0.15) {
            let n = r.gen_range(1..12);
            inputs.push((0..n).map(|_| c_parse::TERMINALS[r.gen_range(0..28)]).collect());
        }
    }
    inputs.truncate(count);
    // parsing in one thread at a time per input: the hook's log is thread local
    let evs = util::par_map(&inputs, |_, kinds| {
        let ks: Vec<&str> = kinds.clone();
        match observe(&ks, true) {
            Err(w) if w == "lex" => None,
            Err(w) => Some(json!({"ev": "peg", "toks": ks, "memo": {}, "dups": 0, "errs": [], "crash": w})),
            Ok((errs, memo, dups)) => Some(json!({"ev": "peg", "toks": ks, "memo": memo, "dups": dups, "errs": errs, "crash": ""})),
        }
    });
    let text: String = evs.iter().flatten().map(|e| format!("{e}\n")).collect();
    std::fs::write(&args[2], text).unwrap();
}
