// C07 (and the token-level part of C14): the real parser against the sentences, derivations and syntax trees that
// TLC generates from grammar.y (spec/GramGrammar.tla).
use crate::{c_lex, parser, tj, token::Token, tokenizer, util};
use serde_json::{json, Value};
use std::collections::HashSet;

pub const TERMINALS: [&str; 28] = [
    "ASTERISK", "BOOLEAN", "COLON", "DOUBLE_EQUALS", "ELSE", "EQUALS", "FALSE", "GREATER_THAN", "GREATER_THAN_OR_EQUAL", "IDENTIFIER", "IF", "INTEGER",
    "INTEGER_LITERAL", "LEFT_CURLY", "LEFT_PAREN", "LESS_THAN", "LESS_THAN_OR_EQUAL", "MINUS", "PLUS", "RIGHT_CURLY", "RIGHT_PAREN", "SLASH",
    "TERMINATOR", "THEN", "THICK_ARROW", "THIN_ARROW", "TRUE", "TYPE",
];

pub fn lexeme(kind: &str, pos: usize, name: Option<&str>) -> String {
    match kind {
        "ASTERISK" => "*".into(), "BOOLEAN" => "bool".into(), "COLON" => ":".into(), "DOUBLE_EQUALS" => "==".into(), "ELSE" => "else".into(),
        "EQUALS" => "=".into(), "FALSE" => "false".into(), "GREATER_THAN" => ">".into(), "GREATER_THAN_OR_EQUAL" => ">=".into(),
        "IDENTIFIER" => name.map_or_else(|| format!("x{pos}"), str::to_string), "IF" => "if".into(), "INTEGER" => "int".into(),
        "INTEGER_LITERAL" => format!("{}", 100 + pos), "LEFT_CURLY" => "{".into(), "LEFT_PAREN" => "(".into(), "LESS_THAN" => "<".into(),
        "LESS_THAN_OR_EQUAL" => "<=".into(), "MINUS" => "-".into(), "PLUS" => "+".into(), "RIGHT_CURLY" => "}".into(), "RIGHT_PAREN" => ")".into(),
        "SLASH" => "/".into(), "TERMINATOR" => ";".into(), "THEN" => "then".into(), "THICK_ARROW" => "=>".into(), "THIN_ARROW" => "->".into(),
        "TRUE" => "true".into(), "TYPE" => "type".into(),
        k => panic!("unknown terminal {k}"),
    }
}

// positions (1-based) of IDENTIFIER tokens that are binders in the prescribed tree
fn binder_positions(ast: &Value, out: &mut HashSet<usize>) {
    match ast {
        Value::Object(m) => {
            let k = m.get("k").and_then(Value::as_str).unwrap_or("");
            if (k == "lam" || k == "pi") && m["p"].as_u64().unwrap() > 0 {
                out.insert(m["p"].as_u64().unwrap() as usize);
            }
            if k == "let" {
                for d in m["defs"].as_array().unwrap() {
                    out.insert(d["p"].as_u64().unwrap() as usize);
                }
            }
            for v in m.values() {
                binder_positions(v, out);
            }
        }
        Value::Array(a) => a.iter().for_each(|v| binder_positions(v, out)),
        _ => {}
    }
}

// does the real term (projected, holes unresolved) have the prescribed shape?  `lex[p-1]` = lexeme of token p
pub fn matches(real: &Value, ast: &Value, lex: &[String]) -> bool {
    let k = ast["k"].as_str().unwrap();
    if real["k"].as_str() != Some(k) {
        return false;
    }
    let name_ok = |r: &Value, p: &Value| {
        let p = p.as_u64().unwrap() as usize;
        r.as_str() == Some(if p == 0 { "_" } else { lex[p - 1].as_str() })
    };
    match k {
        "type" | "int" | "bool" | "true" | "false" | "hole" => true,
        "var" => name_ok(&real["n"], &ast["p"]),
        "lit" => tj::unbig(&real["v"]).to_string() == lex[ast["p"].as_u64().unwrap() as usize - 1],
        "lam" | "pi" => real["imp"] == ast["imp"] && name_ok(&real["n"], &ast["p"]) && matches(&real["a"], &ast["a"], lex) && matches(&real["b"], &ast["b"], lex),
        "app" => matches(&real["a"], &ast["a"], lex) && matches(&real["b"], &ast["b"], lex),
        "neg" => matches(&real["a"], &ast["a"], lex),
        "bin" => real["op"] == ast["op"] && matches(&real["a"], &ast["a"], lex) && matches(&real["b"], &ast["b"], lex),
        "if" => matches(&real["c"], &ast["c"], lex) && matches(&real["a"], &ast["a"], lex) && matches(&real["b"], &ast["b"], lex),
        "let" => {
            let (rd, ad) = (real["defs"].as_array().unwrap(), ast["defs"].as_array().unwrap());
            rd.len() == ad.len()
                && rd.iter().zip(ad).all(|(r, a)| name_ok(&r["n"], &a["p"]) && matches(&r["ann"], &a["ann"], lex) && matches(&r["def"], &a["def"], lex))
                && matches(&real["b"], &ast["b"], lex)
        }
        _ => false,
    }
}

pub enum Parsed {
    Ok(Value),
    Err(usize, String),
    LexMismatch,
    Panic(String),
}

// tokenise the blank-separated lexemes with the real tokenizer (genuine source ranges) and parse in `context`
pub fn parse_lexemes(kinds: &[&str], lex: &[String], context: &[&str]) -> Parsed {
    let text = lex.join(" ");
    let r = util::guarded(|| {
        let toks = match tokenizer::tokenize(None, &text) {
            Ok(t) => t,
            Err(_) => return Parsed::LexMismatch,
        };
        if toks.len() != kinds.len() || toks.iter().zip(kinds).any(|(t, k)| c_lex::kind_of(&t.variant) != *k) {
            return Parsed::LexMismatch;
        }
        match parser::parse(None, &text, &toks[..], context) {
            Ok(t) => Parsed::Ok(tj::tj_with(&t, &mut tj::HoleIds::default(), false)),
            Err(e) => Parsed::Err(e.len(), crate::diag::plain(&e[0])),
        }
    });
    r.unwrap_or_else(Parsed::Panic)
}

// gv replay-parse <tlc-output> <N> <out.json> [reject]
pub fn replay(args: &[String]) {
    util::quiet_panics();
    let lines = util::tagged_lines(&args[0], "SENT");
    let n: usize = args[1].parse().unwrap();
    let do_reject = args.get(3).is_some_and(|s| s == "reject");
    // ---- accept direction + tree shape
    let results = util::par_map(&lines, |_, line| {
        let rec = util::parse_tlc_line(line, "SENT").expect("bad SENT line");
        let kinds: Vec<&str> = rec["y"].as_array().unwrap().iter().map(|k| k.as_str().unwrap()).collect();
        let mut binders = HashSet::new();
        binder_positions(&rec["ast"], &mut binders);
        let lex: Vec<String> = kinds.iter().enumerate().map(|(i, k)| lexeme(k, i + 1, if binders.contains(&(i + 1)) { None } else { Some("u") })).collect();
        let key = kinds.join(" ");
        let bad = match parse_lexemes(&kinds, &lex, &["u"]) {
            Parsed::Ok(t) => {
                if !matches(&t, &rec["ast"], &lex) {
                    Some(json!({"what": "tree differs from the derivation's tree", "text": lex.join(" "), "want": rec["ast"], "got": t}))
                } else if rec["ast"].get("sp").is_some() {
                    check_spans(&kinds, &lex, &["u"], &rec["ast"]).map(|m| json!({"what": "source range of a node is not the node's text", "text": lex.join(" "), "detail": m}))
                } else {
                    None
                }
            }
            Parsed::Err(nerr, msg) => Some(json!({"what": "sentence of grammar.y rejected", "text": lex.join(" "), "want": rec["ast"], "errors": nerr, "msg": msg})),
            Parsed::LexMismatch => Some(json!({"what": "harness: lexemes did not tokenise as intended", "text": lex.join(" ")})),
            Parsed::Panic(p) => Some(json!({"what": "parser panicked on a sentence", "text": lex.join(" "), "panic": p})),
        };
        (key, bad, rec["ast"].to_string())
    });
    // two derivations (or two syntax trees) with the same yield but different trees = the grammar is ambiguous
    let mut sentences: HashSet<String> = HashSet::new();
    let mut trees: std::collections::HashMap<String, String> = Default::default();
    let mut ambiguous: Vec<String> = vec![];
    let mut bad: Vec<Value> = vec![];
    let mut span_bad: Vec<Value> = vec![];
    for (key, b, ast) in results {
        if !sentences.insert(key.clone()) && trees.get(&key) != Some(&ast) {
            ambiguous.push(key.clone());
        }
        trees.entry(key).or_insert(ast);
        if let Some(b) = b {
            if b["what"].as_str().is_some_and(|w| w.starts_with("source range")) { span_bad.push(b) } else { bad.push(b) }
        }
    }
    // ---- reject direction: every token string up to N that is not a sentence must be rejected by the syntax stage.
    // All identifiers get distinct names, so a binder passes scoping iff its name is absent from the initial context and
    // a use passes iff it is present: the syntax stage accepts iff parse() is Ok for SOME subset of the names.
    let mut strings: u64 = 0;
    let mut over: Vec<Value> = vec![];
    let mut panics: Vec<Value> = vec![];
    if do_reject {
        let firsts: Vec<usize> = (0..28).collect();
        let parts = util::par_map(&firsts, |_, &f| {
            let mut cnt = 0u64;
            let mut over = vec![];
            let mut panics = vec![];
            for len in 1..=n {
                let mut idx = vec![0usize; len];
                idx[0] = f;
                loop {
                    cnt += 1;
                    let kinds: Vec<&str> = idx.iter().map(|&i| TERMINALS[i]).collect();
                    let key = kinds.join(" ");
                    if !sentences.contains(&key) {
                        let lex: Vec<String> = kinds.iter().enumerate().map(|(i, k)| lexeme(k, i + 1, None)).collect();
                        let ids: Vec<&str> = kinds.iter().zip(&lex).filter(|(k, _)| **k == "IDENTIFIER").map(|(_, l)| l.as_str()).collect();
                        // cheap first attempt (all names in scope), then the remaining subsets
                        let mut accepted = None;
                        for mask in (0..(1u32 << ids.len())).rev() {
                            let ctx: Vec<&str> = ids.iter().enumerate().filter(|(j, _)| mask >> j & 1 == 1).map(|(_, s)| *s).collect();
                            match parse_lexemes(&kinds, &lex, &ctx) {
                                Parsed::Ok(t) => {
                                    accepted = Some((ctx.join(","), t));
                                    break;
                                }
                                Parsed::Panic(p) => {
                                    if panics.len() < 20 {
                                        panics.push(json!({"text": lex.join(" "), "panic": p}));
                                    }
                                    break;
                                }
                                Parsed::Err(_, ref msg) if mask + 1 == (1u32 << ids.len()) && !msg.contains("already exists") && !msg.contains("not in scope") && !msg.contains("in time") => {
                                    // rejected by the syntax stage itself: no subset can change that
                                    break;
                                }
                                _ => {}
                            }
                        }
                        if let Some((ctx, t)) = accepted {
                            if over.len() < 50 {
                                over.push(json!({"what": "token string that is not a sentence of grammar.y is accepted", "text": lex.join(" "), "context": ctx, "got": t}));
                            }
                        }
                    }
                    // next index vector (first position fixed)
                    let mut p = len;
                    loop {
                        if p == 1 {
                            break;
                        }
                        p -= 1;
                        idx[p] += 1;
                        if idx[p] < 28 {
                            break;
                        }
                        idx[p] = 0;
                    }
                    if p == 1 && (len == 1 || idx[1..].iter().all(|&x| x == 0)) {
                        break;
                    }
                }
            }
            (cnt, over, panics)
        });
        for (c, o, p) in parts {
            strings += c;
            over.extend(o);
            panics.extend(p);
        }
    }
    let sample = lines.get(lines.len() / 2).and_then(|l| util::parse_tlc_line(l, "SENT"));
    let out = json!({"sentences": sentences.len(), "derivations": lines.len(), "ambiguous": ambiguous.iter().take(10).collect::<Vec<_>>(), "n_ambiguous": ambiguous.len(),
        "tree_mismatches": bad.len(), "first": bad.iter().take(60).collect::<Vec<_>>(),
        "span_mismatches": span_bad.len(),
        "span_first": span_bad.iter().filter(|m| !m["detail"].as_str().unwrap_or("").starts_with("LOST-OPEN-PAREN")).take(400)
            .chain(span_bad.iter().filter(|m| m["detail"].as_str().unwrap_or("").starts_with("LOST-OPEN-PAREN")).take(40)).collect::<Vec<_>>(), "strings": strings, "over_accepted": over.len(), "over": over, "panics": panics, "sample": sample});
    std::fs::write(&args[2], serde_json::to_string(&out).unwrap()).unwrap();
}

// gv repeat-parse <programs.jsonl> <times> <out.json>: diagnostics of repeated parse() calls in one process must be identical
pub fn repeat_parse(args: &[String]) {
    util::quiet_panics();
    let times: usize = args[1].parse().unwrap();
    let mut bad = vec![];
    let mut calls = 0u64;
    for l in util::read_lines(&args[0]) {
        let Ok(rec) = serde_json::from_str::<Value>(&l) else { continue };
        let text = rec["text"].as_str().unwrap_or("").to_string();
        let Ok(toks) = tokenizer::tokenize(None, &text) else { continue };
        let mut first: Option<Vec<String>> = None;
        for _ in 0..times {
            calls += 1;
            let msgs: Vec<String> = match util::guarded(|| parser::parse(None, &text, &toks[..], &[])) {
                Ok(Ok(_)) => vec![],
                Ok(Err(e)) => e.iter().map(|x| x.message.clone()).collect(),
                Err(p) => vec![format!("panic: {p}")],
            };
            match &first {
                None => first = Some(msgs),
                Some(f) if *f != msgs => {
                    bad.push(json!({"text": text, "first": f, "other": msgs}));
                    break;
                }
                _ => {}
            }
        }
    }
    std::fs::write(&args[2], json!({"calls": calls, "mismatches": bad.len(), "first": bad.iter().take(20).collect::<Vec<_>>()}).to_string()).unwrap();
}


// Does the SYNTAX stage accept this token string?  (identifier names distinct; every subset of them tried as initial
// context, so scoping cannot mask acceptance).  None = the parser panicked.
pub fn syntax_accepts(kinds: &[&str]) -> Option<bool> {
    let lex: Vec<String> = kinds.iter().enumerate().map(|(i, k)| lexeme(k, i + 1, None)).collect();
    let ids: Vec<&str> = kinds.iter().zip(&lex).filter(|(k, _)| **k == "IDENTIFIER").map(|(_, l)| l.as_str()).collect();
    if ids.len() > 12 {
        return Some(false);
    }
    for mask in (0..(1u32 << ids.len())).rev() {
        let ctx: Vec<&str> = ids.iter().enumerate().filter(|(j, _)| mask >> j & 1 == 1).map(|(_, s)| *s).collect();
        match parse_lexemes(kinds, &lex, &ctx) {
            Parsed::Ok(_) => return Some(true),
            Parsed::Panic(_) => return None,
            Parsed::Err(_, ref msg) if mask + 1 == (1u32 << ids.len()) && !msg.contains("already exists") && !msg.contains("not in scope") && !msg.contains("in time") => return Some(false),
            _ => {}
        }
    }
    Some(false)
}

// gv accepts <tlc-output with NOPAR lines> <targets.ndjson> <every-k>: one {"id","y","accepted"} per (sampled, distinct) string
pub fn accepts(args: &[String]) {
    util::quiet_panics();
    let every: usize = args[2].parse().unwrap();
    let mut seen = HashSet::new();
    let mut ys: Vec<Vec<String>> = vec![];
    for (i, l) in util::tagged_lines(&args[0], "NOPAR").iter().enumerate() {
        let rec = util::parse_tlc_line(l, "NOPAR").expect("bad NOPAR line");
        let y: Vec<String> = rec["y"].as_array().unwrap().iter().map(|k| k.as_str().unwrap().to_string()).collect();
        if seen.insert(y.join(" ")) && (every <= 1 || i % every == 0) {
            ys.push(y);
        }
    }
    let res = util::par_map(&ys, |_, y| {
        let kinds: Vec<&str> = y.iter().map(String::as_str).collect();
        syntax_accepts(&kinds)
    });
    let mut out = String::new();
    for (i, (y, r)) in ys.iter().zip(res).enumerate() {
        out += &format!("{}\n", json!({"id": i + 1, "y": y, "accepted": r.unwrap_or(false), "panicked": r.is_none()}));
    }
    std::fs::write(&args[1], out).unwrap();
}


// C15 (iii): the source range of every node of the parser's output covers exactly the tokens of that node (`sp` prescribed by
// GramUnparse); parentheses written directly around the node may be included.
fn span_ok(range: Option<crate::error::SourceRange>, sp: &Value, toks: &[Token]) -> bool {
    let Some(r) = range else { return false };
    let (f, l) = (sp[0].as_u64().unwrap() as usize, sp[1].as_u64().unwrap() as usize);
    if f == 0 || l > toks.len() || f > l {
        return false;
    }
    let (mut s, mut e) = (f - 1, l - 1); // token indices
    loop {
        if r.start == toks[s].source_range.start && r.end == toks[e].source_range.end {
            return true;
        }
        // widen by one pair of directly enclosing parentheses
        if s > 0 && e + 1 < toks.len() && matches!(toks[s - 1].variant, crate::token::Variant::LeftParen) && matches!(toks[e + 1].variant, crate::token::Variant::RightParen) {
            s -= 1;
            e += 1;
        } else {
            return false;
        }
    }
}

pub fn spans_match(t: &crate::term::Term, ast: &Value, toks: &[Token], text: &str) -> Option<String> {
    use crate::term::Variant::*;
    let k = ast["k"].as_str().unwrap_or("");
    if k == "hole" {
        return None;
    }
    if let Some(sp) = ast.get("sp") {
        if !span_ok(t.source_range, sp, toks) {
            let got = t.source_range.map(|r| text.get(r.start..r.end).unwrap_or("?").to_string());
            // signature of the recorded finding: the range ends where it should but starts after the opening parenthesis(es) of a
            // parenthesised first operand
            let (f, l) = (sp[0].as_u64().unwrap() as usize, sp[1].as_u64().unwrap() as usize);
            let lost = t.source_range.is_some_and(|r| {
                l <= toks.len() && r.end == toks[l - 1].source_range.end && {
                    let mut i = f - 1;
                    while i < toks.len() && matches!(toks[i].variant, crate::token::Variant::LeftParen) && toks[i].source_range.start < r.start {
                        i += 1;
                    }
                    i > f - 1 && i < toks.len() && toks[i].source_range.start == r.start
                }
            });
            return Some(format!("{}node `{k}` at tokens {sp}: source range is {got:?}", if lost { "LOST-OPEN-PAREN " } else { "" }));
        }
    }
    let both = |a: &crate::term::Term, x: &Value, b: &crate::term::Term, y: &Value| spans_match(a, x, toks, text).or_else(|| spans_match(b, y, toks, text));
    match &t.variant {
        Lambda(_, _, a, b) | Pi(_, _, a, b) => both(a, &ast["a"], b, &ast["b"]),
        Application(a, b) | Sum(a, b) | Difference(a, b) | Product(a, b) | Quotient(a, b) | LessThan(a, b) | LessThanOrEqualTo(a, b) | EqualTo(a, b) | GreaterThan(a, b)
        | GreaterThanOrEqualTo(a, b) => both(a, &ast["a"], b, &ast["b"]),
        Negation(a) => spans_match(a, &ast["a"], toks, text),
        If(c, a, b) => spans_match(c, &ast["c"], toks, text).or_else(|| both(a, &ast["a"], b, &ast["b"])),
        Let(ds, b) => {
            let ad = ast["defs"].as_array()?;
            for ((_, an, df), d) in ds.iter().zip(ad) {
                if let Some(m) = spans_match(an, &d["ann"], toks, text).or_else(|| spans_match(df, &d["def"], toks, text)) {
                    return Some(m);
                }
            }
            spans_match(b, &ast["b"], toks, text)
        }
        _ => None,
    }
}

pub fn check_spans(kinds: &[&str], lex: &[String], context: &[&str], ast: &Value) -> Option<String> {
    let text = lex.join(" ");
    let r = util::guarded(|| {
        let toks = tokenizer::tokenize(None, &text).ok()?;
        if toks.len() != kinds.len() {
            return None;
        }
        let t = parser::parse(None, &text, &toks[..], context).ok()?;
        spans_match(&t, ast, &toks, &text)
    });
    r.unwrap_or(None)
}
