// C17: work of the packrat parser (memo-table entries, via the guarded hook) and CPU time on input families at n, 2n, 4n.
use crate::{parser, tokenizer, util};
use serde_json::json;
use std::time::Duration;

// CPU time of the calling thread in microseconds (wall time would make the growth ratios depend on the load of the machine)
fn thread_cpu_us() -> u128 {
    let mut ts = libc::timespec { tv_sec: 0, tv_nsec: 0 };
    // SAFETY: plain syscall writing into a local struct
    unsafe { libc::clock_gettime(libc::CLOCK_THREAD_CPUTIME_ID, &mut ts) };
    ts.tv_sec as u128 * 1_000_000 + ts.tv_nsec as u128 / 1000
}

// nesting of one construct inside an operand position of itself, n deep: (name, template, innermost leaf, prefix, suffix).
// In a template `@` is the next level and `#` the level number (names stay distinct).
const NESTINGS: [(&str, &str, &str, &str, &str); 20] = [
    ("nest-group2-body", "a# = 1; b# = 2; (@)", "0", "r = (", "); r"),
    ("nest-group2-definition", "a# = (@); b# = 2; a#", "0", "r = (", "); r"),
    ("nest-group-annotation", "a# : (@) = 1; a#", "int", "", ""),
    ("nest-application-middle", "f (@) y", "x y", "", ""),
    ("nest-application-head", "(@) y z", "f", "", ""),
    ("nest-application-last", "f y (@)", "x", "", ""),
    ("nest-if-condition", "if (@) then 1 else 2", "true", "", ""),
    ("nest-if-then", "if true then (@) else 2", "1", "", ""),
    ("nest-lambda-domain", "(x# : (@)) => x#", "type", "", ""),
    ("nest-lambda-body-group", "(x# : int) => (a# = x#; @)", "0", "", ""),
    ("nest-pi-domain", "(x# : (@)) -> type", "type", "", ""),
    ("nest-implicit-domain", "{x# : (@)} => x#", "type", "", ""),
    ("nest-sum-middle", "1 + (@) + 2", "3", "", ""),
    ("nest-difference-left", "(@) - 1 - 2", "3", "", ""),
    ("nest-product-middle", "1 * (@) / 2", "3", "", ""),
    ("nest-comparison-right", "1 < (2 + (@))", "3", "", ""),
    ("nest-negation-group", "- (@)", "1", "", ""),
    ("nest-group2-body-truncated", "a# = 1; b# = 2; (@", "0", "r = (", ""),
    ("nest-application-middle-truncated", "f (@ y", "x y", "", ""),
    ("nest-arrow-right", "type -> (a# = type; @)", "type", "", ""),
];

fn nesting(tpl: &str, leaf: &str, n: usize) -> String {
    let (before, after) = tpl.split_once('@').unwrap();
    let mut s = String::new();
    for i in 0..n {
        s += &before.replace('#', &i.to_string());
    }
    s += leaf;
    for i in (0..n).rev() {
        s += &after.replace('#', &i.to_string());
    }
    s
}

fn family(name: &str, n: usize) -> String {
    let rep = |s: &str, k: usize| s.repeat(k);
    if let Some((_, tpl, leaf, pre, post)) = NESTINGS.iter().find(|x| x.0 == name) {
        return format!("{pre}{}{post}", nesting(tpl, leaf, n));
    }
    match name {
        "nested-parens" => format!("{}x{}", rep("(", n), rep(")", n)),
        "nested-parens-truncated" => format!("{}x{}", rep("(", n), rep(")", n / 2)),
        "nested-parens-unbalanced" => format!("{}x{}", rep("(", n / 2), rep(")", n)),
        "nested-pi" => format!("{}type{}", (0..n).map(|i| format!("(x{i} : ")).collect::<String>(), (0..n).map(|_| ") -> type").collect::<String>()),
        "nested-lambda" => format!("{}x0", (0..n).map(|i| format!("(x{i} : type) => ")).collect::<String>()),
        "application-chain" => format!("f{}", rep(" x", n)),
        "sum-chain" => format!("1{}", rep(" + 1", n)),
        "product-chain" => format!("1{}", rep(" * 1", n)),
        "mixed-chain" => format!("1{}", (0..n).map(|i| [" + 1", " * 2", " - 3", " / 4"][i % 4]).collect::<String>()),
        "comparison-nest" => format!("{}1{}", rep("(", n), rep(" < 1)", n)),
        "definitions" => format!("{}x0", (0..n).map(|i| format!("x{i} = {i}; ")).collect::<String>()),
        "definitions-lines" => format!("{}x0", (0..n).map(|i| format!("x{i} : int = {i}\n")).collect::<String>()),
        "nested-if" => format!("{}1{}", rep("if true then ", n), rep(" else 0", n)),
        "sequential-if" => format!("{}0", rep("if true then 1 else ", n)),
        "nested-if-truncated" => rep("if true then ", n),
        "negations" => format!("{}1", rep("- ", n)),
        "arrows" => format!("{}type", rep("type -> ", n)),
        "group-annotations" => format!("{}x0", (0..n).map(|i| format!("x{i} : (int -> int) = (y : int) => y; ")).collect::<String>()),
        "token-soup" => (0..n).map(|i| ["(", "x", ":", "=>", ")", "+", "if", "=", ";", "{", "->", "}"][i * 7 % 12]).collect::<Vec<_>>().join(" "),
        "quotient-chain" => format!("1{}", rep(" / 1", n)),
        "difference-chain" => format!("1{}", rep(" - 1", n)),
        "grouped-operand-chain" => format!("1{}", (0..n).map(|i| if i % 2 == 0 { " - (1)" } else { " / (2)" }).collect::<String>()),
        "application-grouped-chain" => format!("f{}", rep(" (x)", n)),
        "braces-missing-domain" => format!("{}{}", rep("{x : ", n), rep("}", n)),
        "parens-missing-domain" => format!("{}{}", rep("(x : ", n), rep(")", n)),
        "braces-nested-domains" => format!("{}type{} => x", (0..n).map(|i| format!("{{x{i} : ")).collect::<String>(), rep("}", n)),
        "definitions-fibonacci" => {
            // one non-value definition followed by functions that each mention two others
            let mut s = String::from("r = f0 0; ");
            for i in 0..n {
                s += &format!("f{i} = (x : int) => f{} (f{} x); ", (i + 1) % n.max(1), (i + 2) % n.max(1));
            }
            s + "r"
        }
        "definitions-chain-forward" => {
            let mut s = String::from("r = f0 0; ");
            for i in 0..n {
                s += &format!("f{i} = (x : int) => f{} x; ", (i + 1).min(n - 1));
            }
            s + "r"
        }
        "nested-groups" => format!("{}0{}", (0..n).map(|i| format!("(x{i} = ")).collect::<String>(), (0..n).rev().map(|i| format!("; x{i})")).collect::<String>()),
        "implicit-lambdas" => format!("{}x0", (0..n).map(|i| format!("{{x{i}}} => ")).collect::<String>()),
        "if-missing-else" => format!("{}1", rep("if true then ", n)),
        "comparison-chain-ungrouped" => format!("1{}", rep(" < 1", n)),
        "open-braces" => format!("{}x", (0..n).map(|i| format!("{{x{i} : ")).collect::<String>()),
        o => panic!("unknown family {o}"),
    }
}

pub fn families() -> Vec<&'static str> {
    BASE_FAMILIES.iter().copied().chain(NESTINGS.iter().map(|x| x.0)).collect()
}

pub const BASE_FAMILIES: [&str; 33] = ["nested-parens", "nested-parens-truncated", "nested-parens-unbalanced", "nested-pi", "nested-lambda", "application-chain", "sum-chain",
    "product-chain", "mixed-chain", "comparison-nest", "definitions", "definitions-lines", "nested-if", "sequential-if", "nested-if-truncated", "negations", "arrows",
    "group-annotations", "token-soup", "open-braces", "quotient-chain", "difference-chain", "grouped-operand-chain", "application-grouped-chain",
    "braces-missing-domain", "parens-missing-domain", "braces-nested-domains", "definitions-fibonacci", "definitions-chain-forward", "nested-groups", "implicit-lambdas",
    "if-missing-else", "comparison-chain-ungrouped"];

#[cfg(all(feature = "verif", have_hooks))]
fn counters() -> (u64, u64) { (crate::verif_hooks::memo_entries(), crate::verif_hooks::memo_hits()) }
#[cfg(all(feature = "verif", have_hooks))]
fn reset() { crate::verif_hooks::reset(); }
#[cfg(not(all(feature = "verif", have_hooks)))]
fn counters() -> (u64, u64) { (0, 0) }
#[cfg(not(all(feature = "verif", have_hooks)))]
fn reset() {}

// worker: one (family, n) per line, answers an event; the master enforces the time limit
pub fn case(line: &str) -> String {
    let rec: serde_json::Value = serde_json::from_str(line).unwrap();
    let (fam, n) = (rec["family"].as_str().unwrap(), rec["n"].as_u64().unwrap() as usize);
    let text = family(fam, n);
    let (mut best_lex, mut best_parse) = (u128::MAX, u128::MAX);
    let (mut work, mut hits, mut ntok) = (0, 0, 0);
    let mut panic = None;
    for _ in 0..3 {
        let t0 = thread_cpu_us();
        let toks = match util::guarded(|| tokenizer::tokenize(None, &text)) {
            Ok(Ok(t)) => t,
            Ok(Err(_)) => vec![],
            Err(p) => { panic = Some(p); vec![] }
        };
        best_lex = best_lex.min(thread_cpu_us() - t0);
        ntok = toks.len();
        reset();
        let t1 = thread_cpu_us();
        if let Err(p) = util::guarded(|| { let _ = parser::parse(None, &text, &toks[..], &[]); }) {
            panic = Some(p);
        }
        best_parse = best_parse.min(thread_cpu_us() - t1);
        let (e, h) = counters();
        work = e;
        hits = h;
    }
    json!({"ev": "work", "family": fam, "n": n, "toks": ntok, "work": work, "hits": hits, "computes": work - hits, "cpu_us": best_parse as u64, "lex_us": best_lex as u64,
           "timed_out": false, "panic": panic.unwrap_or_default()}).to_string()
}

// gv record-work <max-n> <trace.ndjson> [limit-seconds]
pub fn record(args: &[String]) {
    let maxn: usize = args[0].parse().unwrap();
    let limit: u64 = args.get(2).and_then(|s| s.parse().ok()).unwrap_or(20);
    let mut evs: Vec<serde_json::Value> = vec![];
    // rounds by size, smallest first: a family that hits the time limit is not run at larger sizes (the case that hit the
    // limit is itself the witness)
    let fams = families();
    let mut alive: Vec<&str> = fams.clone();
    let mut n = maxn / 8;
    while n <= maxn && !alive.is_empty() {
        let items: Vec<String> = alive.iter().map(|f| json!({"family": f, "n": n}).to_string()).collect();
        let answers = crate::sup::run_cpu_limited("work", &[], &items, Duration::from_secs(limit));
        let mut next = vec![];
        for (f, a) in alive.iter().zip(answers) {
            match a {
                crate::sup::Answer::Line(l) => {
                    evs.push(serde_json::from_str(&l).unwrap());
                    next.push(*f);
                }
                crate::sup::Answer::Timeout => evs.push(json!({"ev": "work", "family": f, "n": n, "toks": 0, "work": 0, "hits": 0, "computes": 0, "cpu_us": limit * 1_000_000, "lex_us": 0, "timed_out": true, "panic": ""})),
                crate::sup::Answer::Crash(m) => evs.push(json!({"ev": "work", "family": f, "n": n, "toks": 0, "work": 0, "hits": 0, "computes": 0, "cpu_us": 0, "lex_us": 0, "timed_out": false, "panic": m, "crashed": true})),
            }
        }
        alive = next;
        n *= 2;
    }
    // the trace specification compares consecutive sizes of one family: group the events by family
    evs.sort_by_key(|e| (fams.iter().position(|f| *f == e["family"].as_str().unwrap()).unwrap(), e["n"].as_u64().unwrap()));
    // CPU time on a busy machine is noisy (cache and page-fault contention): a suspicious step between two sizes is measured
    // again, one pair at a time, and the smallest time seen is kept -- a real blow-up survives this, noise does not
    for _ in 0..3 {
        let mut again: Vec<usize> = vec![];
        for i in 1..evs.len() {
            let (p, e) = (&evs[i - 1], &evs[i]);
            let t = |x: &serde_json::Value, k: &str| x[k].as_u64().unwrap_or(0);
            if p["family"] == e["family"] && !e["timed_out"].as_bool().unwrap_or(false) && e.get("crashed").is_none() && p.get("crashed").is_none()
                && ((t(p, "cpu_us") >= 20_000 && t(e, "cpu_us") > 8 * t(p, "cpu_us")) || (t(p, "lex_us") >= 20_000 && t(e, "lex_us") > 8 * t(p, "lex_us")))
            {
                again.push(i - 1);
                again.push(i);
            }
        }
        again.dedup();
        if again.is_empty() {
            break;
        }
        for i in again {
            let item = json!({"family": evs[i]["family"], "n": evs[i]["n"]}).to_string();
            if let Some(crate::sup::Answer::Line(l)) = crate::sup::run_cpu_limited("work", &[], &[item], Duration::from_secs(limit)).into_iter().next() {
                let v: serde_json::Value = serde_json::from_str(&l).unwrap();
                for k in ["cpu_us", "lex_us"] {
                    let m = evs[i][k].as_u64().unwrap_or(0).min(v[k].as_u64().unwrap_or(u64::MAX));
                    evs[i][k] = json!(m);
                }
                let r = evs[i]["remeasured"].as_u64().unwrap_or(0) + 1;
                evs[i]["remeasured"] = json!(r);
            }
        }
    }
    evs.sort_by_key(|e| (fams.iter().position(|f| *f == e["family"].as_str().unwrap()).unwrap(), e["n"].as_u64().unwrap()));
    let text: String = evs.iter().map(|e| format!("{e}\n")).collect();
    std::fs::write(&args[1], text).unwrap();
}

pub fn worker() {
    util::quiet_panics();
    // deep nesting needs a deep stack here; whether gram's own 16 MiB suffice is not this property's subject
    let h = std::thread::Builder::new().stack_size(1 << 30).spawn(|| {
        use std::io::{BufRead, Write};
        let stdin = std::io::stdin();
        for line in stdin.lock().lines() {
            let Ok(line) = line else { break };
            let ans = case(&line);
            let mut o = std::io::stdout().lock();
            let _ = writeln!(o, "{ans}");
            let _ = o.flush();
        }
    }).unwrap();
    let _ = h.join();
}
