// C16: printed terms read back as the same term.  parse -> to_string() -> tokenize -> parse (same scope) -> compare.
use crate::{c_parse, c_pipe, parser, term::Term, tj, token::Token, tokenizer, type_checker, util};
use serde_json::{json, Value};
use std::collections::HashSet;

fn fv0(v: &Value, c: u64, out: &mut bool) {
    match v["k"].as_str().unwrap_or("") {
        "var" => {
            if v["i"].as_u64().unwrap() == c {
                *out = true;
            }
        }
        "lam" | "pi" => {
            fv0(&v["a"], c, out);
            fv0(&v["b"], c + 1, out);
        }
        "app" | "bin" => {
            fv0(&v["a"], c, out);
            fv0(&v["b"], c, out);
        }
        "neg" => fv0(&v["a"], c, out),
        "if" => {
            fv0(&v["c"], c, out);
            fv0(&v["a"], c, out);
            fv0(&v["b"], c, out);
        }
        "let" => {
            let n = v["defs"].as_array().unwrap().len() as u64;
            for d in v["defs"].as_array().unwrap() {
                fv0(&d["ann"], c + n, out);
                fv0(&d["def"], c + n, out);
            }
            fv0(&v["b"], c + n, out);
        }
        _ => {}
    }
}

// same binding structure (indices), implicitness, operators, literals, holes; names are ignored (binding is in the
// indices; the name of an unused function-type parameter is not printed at all)
pub fn same_structure(a: &Value, b: &Value) -> bool {
    match (a, b) {
        (Value::Object(x), Value::Object(y)) => {
            if x.get("k") != y.get("k") {
                return false;
            }
            if x.get("k").and_then(Value::as_str) == Some("hole") {
                return true; // a hole is a hole: its identity and the scope it may be solved in are not printed
            }
            x.iter().filter(|(k, _)| k.as_str() != "n").all(|(k, v)| y.get(k).is_some_and(|w| same_structure(v, w)))
                && y.keys().filter(|k| k.as_str() != "n").all(|k| x.contains_key(k))
        }
        (Value::Array(x), Value::Array(y)) => x.len() == y.len() && x.iter().zip(y).all(|(p, q)| same_structure(p, q)),
        _ => a == b,
    }
}

fn implicit_nd_pi(v: &Value) -> bool {
    match v {
        Value::Object(m) => {
            if m.get("k").and_then(Value::as_str) == Some("pi") && m["imp"] == json!(true) {
                let mut used = false;
                fv0(&m["b"], 0, &mut used);
                if !used {
                    return true;
                }
            }
            m.values().any(implicit_nd_pi)
        }
        Value::Array(a) => a.iter().any(implicit_nd_pi),
        _ => false,
    }
}

fn neutralise(v: &Value) -> Value {
    match v {
        Value::Object(m) => {
            let mut o = serde_json::Map::new();
            for (k, x) in m {
                o.insert(k.clone(), neutralise(x));
            }
            if m.get("k").and_then(Value::as_str) == Some("pi") && m["imp"] == json!(true) {
                let mut used = false;
                fv0(&m["b"], 0, &mut used);
                if !used {
                    o.insert("imp".into(), json!(false));
                }
            }
            Value::Object(o)
        }
        Value::Array(a) => Value::Array(a.iter().map(neutralise).collect()),
        x => x.clone(),
    }
}

pub struct Trip {
    pub printed: String,
    pub ok: bool,
    pub what: String,
    pub t1: Value,
    pub t2: Value,
}

// print a real term, read it back in `ctx`, compare
pub fn trip(t: &Term, ctx: &[&'static str]) -> Trip {
    let t1 = tj::tj_with(t, &mut tj::HoleIds::default(), true);
    let printed = t.to_string();
    let src: &'static str = tj::leak(&printed);
    let toks = match tokenizer::tokenize(None, src) {
        Ok(x) => x,
        Err(e) => return Trip { printed, ok: false, what: format!("printed text does not tokenise: {}", crate::diag::plain(&e[0]).lines().next().unwrap_or("")), t1, t2: Value::Null },
    };
    let toks: &'static [Token<'static>] = Box::leak(toks.into_boxed_slice());
    match parser::parse(None, src, toks, ctx) {
        Ok(t2) => {
            let t2 = tj::tj_with(&t2, &mut tj::HoleIds::default(), true);
            let ok = same_structure(&t1, &t2);
            Trip { printed, ok, what: if ok { String::new() } else { "printed text reads back as a different term".into() }, t1, t2 }
        }
        Err(e) => Trip { printed, ok: false, what: format!("printed text does not parse: {}", crate::diag::plain(&e[0]).lines().next().unwrap_or("")), t1, t2: Value::Null },
    }
}

fn judge(label: &str, text: &str, t: &Term, ctx: &[&'static str], bad: &mut Vec<Value>, events: &mut Vec<Value>, want_event: bool) {
    let r = trip(t, ctx);
    if want_event {
        events.push(json!({"ev": "roundtrip", "what": label, "t": r.t1, "t2": if r.t2.is_null() { json!({"k": "none"}) } else { r.t2.clone() }, "printed": tj::ascii(&r.printed)}));
    }
    if !r.ok {
        // neutralising transform for the recorded finding about `{a : T} -> U` with unused a: make those binders explicit
        let indp = implicit_nd_pi(&r.t1);
        let mut neutral_ok = false;
        if indp {
            let t1n = neutralise(&r.t1);
            if !c_pipe::has_hole(&t1n) || true {
                let tn = tj::from_json(&t1n);
                neutral_ok = trip(&tn, ctx).ok;
            }
        }
        bad.push(json!({"what": r.what, "of": label, "text": text, "printed": r.printed, "t1": r.t1, "t2": r.t2, "implicit_nd_pi": indp, "ok_when_made_explicit": neutral_ok}));
    }
}

fn one_case(text: &str, ctx: &[&'static str], check_too: bool, bad: &mut Vec<Value>, events: &mut Vec<Value>, want_event: bool) -> u64 {
    let src: &'static str = tj::leak(text);
    let Ok(toks) = tokenizer::tokenize(None, src) else { return 0 };
    let toks: &'static [Token<'static>] = Box::leak(toks.into_boxed_slice());
    let Ok(t) = parser::parse(None, src, toks, ctx) else { return 0 };
    let mut n = 1;
    judge("parsed term", text, &t, ctx, bad, events, want_event);
    if check_too {
        let (mut tc, mut dc) = (vec![], vec![]);
        if ctx.is_empty() {
            if let Ok((elab, ty)) = type_checker::type_check(None, src, &t, &mut tc, &mut dc) {
                judge("elaborated term", text, &elab, ctx, bad, events, want_event);
                judge("elaborated type", text, &ty, ctx, bad, events, want_event);
                n += 2;
            }
        }
    }
    n
}

// gv roundtrip <SENT|SCOPE|PROG> <tlc-output> <out.json> <events.ndjson> <event-every-k>
pub fn main(args: &[String]) {
    let tag = args[0].as_str();
    let lines = util::tagged_lines(&args[1], tag);
    let every: usize = args[4].parse().unwrap();
    // type checking may overflow the stack on divergent programs: run in supervised workers
    let items: Vec<String> = lines
        .iter()
        .enumerate()
        .map(|(i, l)| {
            let rec = util::parse_tlc_line(l, tag).expect("bad line");
            let (text, ctx, check): (String, Vec<&str>, bool) = match tag {
                "SENT" => {
                    let kinds: Vec<&str> = rec["y"].as_array().unwrap().iter().map(|k| k.as_str().unwrap()).collect();
                    let mut binders = HashSet::new();
                    c_parse_binders(&rec["ast"], &mut binders);
                    let lex: Vec<String> = kinds.iter().enumerate().map(|(j, k)| c_parse::lexeme(k, j + 1, if binders.contains(&(j + 1)) { None } else { Some("u") })).collect();
                    (lex.join(" "), vec!["u"], false)
                }
                "SCOPE" => {
                    if rec["errs"].as_u64().unwrap() > 0 {
                        return String::new();
                    }
                    (rec["toks"].as_array().unwrap().iter().map(|t| t.as_str().unwrap()).collect::<Vec<_>>().join(" "), vec![], false)
                }
                "TEXT" => (rec["text"].as_str().unwrap().to_string(), vec![], false),
                _ => (c_pipe::unparse(&rec["t"], i % 4), vec![], true),
            };
            json!({"text": text, "ctx": ctx, "check": check, "ev": every > 0 && i % every == 0}).to_string()
        })
        .filter(|s| !s.is_empty())
        .collect();
    let answers = crate::sup::run("roundtrip", &[], &items, std::time::Duration::from_secs(20));
    let mut bad: Vec<Value> = vec![];
    let mut events = String::new();
    let (mut trips, mut crashes) = (0u64, 0u64);
    for a in answers {
        match a {
            crate::sup::Answer::Line(l) => {
                let v: Value = serde_json::from_str(&l).unwrap();
                trips += v["n"].as_u64().unwrap_or(0);
                bad.extend(v["bad"].as_array().cloned().unwrap_or_default());
                for e in v["events"].as_array().cloned().unwrap_or_default() {
                    events += &format!("{e}\n");
                }
            }
            _ => crashes += 1,
        }
    }
    // failures with the signature of the recorded finding must not crowd out the others
    let (kf, other): (Vec<Value>, Vec<Value>) = bad.into_iter().partition(|m| m["implicit_nd_pi"] == json!(true) && m["ok_when_made_explicit"] == json!(true));
    let first: Vec<&Value> = other.iter().take(400).chain(kf.iter().take(40)).collect();
    let out = json!({"cases": items.len(), "round_trips": trips, "crashes": crashes, "mismatches": kf.len() + other.len(), "mismatches_other": other.len(), "first": first});
    std::fs::write(&args[2], serde_json::to_string(&out).unwrap()).unwrap();
    std::fs::write(&args[3], events).unwrap();
}

fn c_parse_binders(ast: &Value, out: &mut HashSet<usize>) {
    match ast {
        Value::Object(m) => {
            let k = m.get("k").and_then(Value::as_str).unwrap_or("");
            if (k == "lam" || k == "pi") && m["p"].as_u64().unwrap() > 0 {
                out.insert(m["p"].as_u64().unwrap() as usize);
            }
            if k == "let" {
                for d in m["defs"].as_array().unwrap() {
                    out.insert(d["p"].as_u64().unwrap() as usize);
                }
            }
            for v in m.values() {
                c_parse_binders(v, out);
            }
        }
        Value::Array(a) => a.iter().for_each(|v| c_parse_binders(v, out)),
        _ => {}
    }
}

pub fn worker() {
    util::quiet_panics();
    crate::sup::serve(|line| {
        let rec: Value = serde_json::from_str(line).unwrap();
        let ctx: Vec<&'static str> = rec["ctx"].as_array().unwrap().iter().map(|c| tj::leak(c.as_str().unwrap())).collect();
        let mut bad = vec![];
        let mut events = vec![];
        let r = util::guarded(|| one_case(rec["text"].as_str().unwrap(), &ctx, rec["check"].as_bool().unwrap(), &mut bad, &mut events, rec["ev"].as_bool().unwrap()));
        match r {
            Ok(n) => json!({"n": n, "bad": bad, "events": events}).to_string(),
            Err(p) => json!({"n": 0, "bad": [{"what": "panic while printing / re-reading", "text": rec["text"], "panic": p}], "events": []}).to_string(),
        }
    });
}
