// C18: type_check / normalize_weak_head / unify under a real context vs the closed program; contexts before and after.
use crate::{normalizer, sup, term::{Term, Variant}, tj, type_checker, unifier, util};
use serde_json::{json, Value};
use std::{rc::Rc, time::Duration};

type TCtx = Vec<(Rc<Term<'static>>, usize)>;
type DCtx = Vec<Option<(Rc<Term<'static>>, usize)>>;

fn snapshot(tc: &TCtx, dc: &DCtx) -> (Vec<(usize, usize, String)>, Vec<Option<(usize, usize, String)>>) {
    (
        tc.iter().map(|(t, o)| (Rc::as_ptr(t) as usize, *o, tj::tj(t).to_string())).collect(),
        dc.iter().map(|e| e.as_ref().map(|(t, o)| (Rc::as_ptr(t) as usize, *o, tj::tj(t).to_string()))).collect(),
    )
}

// input: {"t": closed program, "k": number of outer binders to peel}
pub fn case(line: &str) -> String {
    let rec: Value = serde_json::from_str(line).unwrap();
    let k = rec["k"].as_u64().unwrap() as usize;
    let closed = tj::from_json(&rec["t"]);
    // peel
    let mut binders: Vec<Value> = vec![];
    let (mut tc, mut dc): (TCtx, DCtx) = (vec![], vec![]);
    let mut cur: Term<'static> = closed.clone();
    for _ in 0..k {
        let next = match &cur.variant {
            Variant::Lambda(_, imp, dom, body) => {
                binders.push(json!({"k": "lam", "imp": imp, "a": tj::tj(dom)}));
                tc.push((dom.clone(), 0));
                dc.push(None);
                (**body).clone()
            }
            Variant::Let(defs, body) => {
                binders.push(json!({"k": "let", "defs": defs.iter().map(|(n, a, d)| json!({"n": tj::ascii(n), "ann": tj::tj(a), "def": tj::tj(d)})).collect::<Vec<_>>()}));
                let n = defs.len();
                for (i, (_, a, d)) in defs.iter().enumerate() {
                    tc.push((a.clone(), n - i));
                    dc.push(Some((d.clone(), n - i)));
                }
                (**body).clone()
            }
            _ => return json!({"skip": true}).to_string(),
        };
        cur = next;
    }
    let open = cur;
    let before = snapshot(&tc, &dc);
    let src: &'static str = "";
    let r_open = util::guarded(|| type_checker::type_check(None, src, &open, &mut tc, &mut dc));
    let after_check = snapshot(&tc, &dc);
    let whnf = util::guarded(|| normalizer::normalize_weak_head(&open, &mut dc));
    let after_whnf = snapshot(&tc, &dc);
    let self_unify = match &whnf {
        Ok(w) => util::guarded(|| unifier::unify(&open, w, &mut dc)).unwrap_or(false),
        Err(_) => false,
    };
    let self_unify_swapped = match &whnf {
        Ok(w) => util::guarded(|| unifier::unify(w, &open, &mut dc)).unwrap_or(false),
        Err(_) => false,
    };
    let after_unify = snapshot(&tc, &dc);
    // the closed program normalised by itself (definitions are substituted by `open` rather than looked up in a context)
    let whnf_closed = util::guarded(|| { let mut dc1: DCtx = vec![]; normalizer::normalize_weak_head(&closed, &mut dc1) });
    let (mut tc0, mut dc0): (TCtx, DCtx) = (vec![], vec![]);
    let r_closed = util::guarded(|| type_checker::type_check(None, src, &closed, &mut tc0, &mut dc0));
    let mut note = String::new();
    if after_check != before {
        note = "after type_check".into();
    } else if after_whnf != before {
        note = "after normalize_weak_head".into();
    } else if after_unify != before {
        note = "after unify".into();
    } else if !tc0.is_empty() || !dc0.is_empty() {
        note = "empty contexts of the closed check were left non-empty".into();
    }
    let none = json!({"k": "none"});
    let (ok_open, ty_open, crashed_o) = match &r_open {
        Ok(Ok((_, ty))) => (true, tj::tj(ty), false),
        Ok(Err(_)) => (false, none.clone(), false),
        Err(_) => (false, none.clone(), true),
    };
    let (ok_closed, ty_closed, crashed_c) = match &r_closed {
        Ok(Ok((_, ty))) => (true, tj::tj(ty), false),
        Ok(Err(_)) => (false, none.clone(), false),
        Err(_) => (false, none.clone(), true),
    };
    json!({"ev": "ctx", "binders": binders, "open": tj::tj(&open), "closed": rec["t"], "ok_open": ok_open, "ty_open": ty_open, "ok_closed": ok_closed, "ty_closed": ty_closed,
           "crashed": crashed_o || crashed_c, "whnf_open": match &whnf { Ok(w) => tj::tj(w), Err(_) => none.clone() }, "self_unify": self_unify, "self_unify_swapped": self_unify_swapped,
           "whnf_closed": match &whnf_closed { Ok(w) => tj::tj(w), Err(_) => none.clone() },
           "ctx_restored": note.is_empty(), "ctx_note": note}).to_string()
}

// gv record-ctx <tlc-output PROG> <trace.ndjson> <summary.json> <every> [programs.jsonl]
pub fn record(args: &[String]) {
    let lines = util::tagged_lines(&args[0], "PROG");
    let every: usize = args[3].parse().unwrap();
    let mut items = vec![];
    for (i, l) in lines.iter().enumerate() {
        let rec = util::parse_tlc_line(l, "PROG").expect("bad PROG line");
        if rec["holes"] == json!(true) {
            continue;
        }
        let top = rec["t"]["k"].as_str().unwrap_or("");
        if top != "lam" && top != "let" {
            continue;
        }
        if every > 1 && i % every != 0 && rec["v"]["ty"] != "ok" {
            continue; // all well-typed programs, a sample of the ill-typed ones
        }
        for k in 1..=3 {
            items.push(json!({"t": rec["t"], "k": k}).to_string());
        }
    }
    // larger hosts: generated programs given as text (parsed by the real parser into terms)
    if let Some(path) = args.get(4) {
        for l in util::read_lines(path) {
            if let Ok(rec) = serde_json::from_str::<Value>(&l) {
                if let Some(t) = crate::c_gen::parse_to_json(rec["text"].as_str().unwrap_or("")) {
                    if !crate::c_pipe::has_hole(&t) {
                        for k in 1..=4 {
                            items.push(json!({"t": t, "k": k}).to_string());
                        }
                    }
                }
            }
        }
    }
    let answers = sup::run("ctx", &[], &items, Duration::from_secs(10));
    let mut out = String::new();
    let (mut n, mut crashes, mut unrestored) = (0u64, 0u64, 0u64);
    for a in answers {
        match a {
            sup::Answer::Line(l) => {
                if l.contains("\"skip\":true") {
                    continue;
                }
                n += 1;
                if l.contains("\"ctx_restored\":false") {
                    unrestored += 1;
                }
                out += &l;
                out.push('\n');
            }
            _ => crashes += 1,
        }
    }
    std::fs::write(&args[1], out).unwrap();
    std::fs::write(&args[2], json!({"events": n, "crashes": crashes, "contexts_not_restored": unrestored}).to_string()).unwrap();
}

pub fn worker() {
    util::quiet_panics();
    sup::serve(case);
}
