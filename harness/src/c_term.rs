// C11: replay of TLC-prescribed shift / open / free-variable results into the real functions (direction A),
// and recording of the real functions on random large terms for TLC trace validation (direction B).
use crate::{de_bruijn, term, tj, util};
use rand::{rngs::StdRng, Rng, SeedableRng};
use serde_json::{json, Value};
use std::collections::HashSet;

fn sorted_fv(t: &term::Term, c: usize) -> Vec<u64> {
    let mut s = HashSet::new();
    term::free_variables(t, c, &mut s);
    let mut v: Vec<u64> = s.into_iter().map(|x| x as u64).collect();
    v.sort_unstable();
    v
}

fn sorted_nums(v: &Value) -> Vec<u64> {
    let mut v: Vec<u64> = v.as_array().unwrap().iter().map(|x| x.as_u64().unwrap()).collect();
    v.sort_unstable();
    v
}

// gv replay-term <tlc-output> <out.json>
pub fn replay(args: &[String]) {
    util::quiet_panics();
    let lines = util::tagged_lines(&args[0], "REPLAY");
    let results = util::par_map(&lines, |_, line| {
        let rec = util::parse_tlc_line(line, "REPLAY").expect("bad REPLAY line");
        let mut cases = 0u64;
        let mut bad: Vec<Value> = vec![];
        let t = tj::from_json(&rec["t"]);
        for c in rec["sh"].as_array().unwrap() {
            cases += 1;
            let (cut, d) = (c["c"].as_u64().unwrap() as usize, c["d"].as_i64().unwrap() as isize);
            let got = util::guarded(|| de_bruijn::signed_shift(&t, cut, d));
            let want_ok = c["r"]["ok"].as_bool().unwrap();
            let ok = match &got {
                Ok(Some(r)) => want_ok && tj::same_shape(&tj::tj(r), &c["r"]["t"]),
                Ok(None) => !want_ok,
                Err(_) => false,
            };
            if !ok {
                bad.push(json!({"fn":"signed_shift","t":rec["t"],"c":cut,"d":d,"want":c["r"],
                    "got": match &got { Ok(Some(r)) => tj::tj(r), Ok(None) => json!("None"), Err(e) => json!({"panic": e}) }}));
            }
            if d >= 0 {
                cases += 1;
                let got = util::guarded(|| de_bruijn::unsigned_shift(&t, cut, d as usize));
                let ok = matches!(&got, Ok(r) if tj::same_shape(&tj::tj(r), &c["r"]["t"]));
                if !ok {
                    bad.push(json!({"fn":"unsigned_shift","t":rec["t"],"c":cut,"d":d,"want":c["r"],
                        "got": match &got { Ok(r) => tj::tj(r), Err(e) => json!({"panic": e}) }}));
                }
            }
        }
        for c in rec["op"].as_array().unwrap() {
            cases += 1;
            let (i, s) = (c["i"].as_u64().unwrap() as usize, c["s"].as_u64().unwrap() as usize);
            let u = tj::from_json(&c["u"]);
            let got = util::guarded(|| de_bruijn::open(&t, i, &u, s));
            let ok = matches!(&got, Ok(r) if tj::same_shape(&tj::tj(r), &c["r"]));
            if !ok {
                bad.push(json!({"fn":"open","t":rec["t"],"i":i,"s":s,"u":c["u"],"want":c["r"],
                    "got": match &got { Ok(r) => tj::tj(r), Err(e) => json!({"panic": e}) }}));
            }
        }
        for c in rec["fv"].as_array().unwrap() {
            cases += 1;
            let cut = c["c"].as_u64().unwrap() as usize;
            let got = util::guarded(|| sorted_fv(&t, cut));
            let ok = matches!(&got, Ok(r) if *r == sorted_nums(&c["vs"]));
            if !ok {
                bad.push(json!({"fn":"free_variables","t":rec["t"],"c":cut,"want":c["vs"],
                    "got": match &got { Ok(r) => json!(r), Err(e) => json!({"panic": e}) }}));
            }
        }
        (cases, bad)
    });
    let mut cases = 0;
    let mut bad = vec![];
    for (c, b) in results {
        cases += c;
        bad.extend(b);
    }
    let sample = lines.get(lines.len() / 2).and_then(|l| util::parse_tlc_line(l, "REPLAY"));
    let out = json!({"behaviours": lines.len(), "cases": cases, "mismatches": bad.len(),
        "first": bad.iter().take(20).collect::<Vec<_>>(), "sample": sample.map(|s| json!({"t": s["t"], "one_shift": s["sh"][0], "one_open": s["op"][0]}))});
    std::fs::write(&args[1], serde_json::to_string(&out).unwrap()).unwrap();
}

// ---- direction B: random large hole-free terms; every call of the real functions becomes an event
// `nest` bounds the JSON nesting (Gson, used by TLC's Json module, stops at 255 levels; a group costs 3)
fn gen_term(r: &mut StdRng, depth: usize, budget: &mut i64) -> Value {
    gen_nest(r, depth, budget, 0)
}
fn gen_nest(r: &mut StdRng, depth: usize, budget: &mut i64, nest: usize) -> Value {
    *budget -= 1;
    let leaf = *budget <= 0 || nest > 180;
    let k = if leaf { r.gen_range(0..3) } else { r.gen_range(0..14) };
    let name = |r: &mut StdRng| format!("v{}", r.gen_range(0..5));
    match k {
        0 => { let k = ["type","int","bool","true","false"][r.gen_range(0..5)]; json!({"k": k}) }
        1 => {
            let n: i64 = r.gen_range(-20000..20000);
            json!({"k":"lit","v": tj::big(&n.into())})
        }
        2 | 3 => json!({"k":"var","i": r.gen_range(0..depth + 3),"n": name(r)}),
        4 | 5 => json!({"k": if k == 4 {"lam"} else {"pi"},"n":name(r),"imp": r.gen_bool(0.3),"a":gen_nest(r, depth, budget, nest + 1),"b":gen_nest(r, depth + 1, budget, nest + 1)}),
        6 | 7 => json!({"k":"app","a":gen_nest(r, depth, budget, nest + 1),"b":gen_nest(r, depth, budget, nest + 1)}),
        8 | 9 => {
            let op = ["sum","diff","prod","quot","lt","le","eq","gt","ge"][r.gen_range(0..9)];
            json!({"k":"bin","op":op,"a":gen_nest(r, depth, budget, nest + 1),"b":gen_nest(r, depth, budget, nest + 1)})
        }
        10 => json!({"k":"neg","a":gen_nest(r, depth, budget, nest + 1)}),
        11 => json!({"k":"if","c":gen_nest(r, depth, budget, nest + 1),"a":gen_nest(r, depth, budget, nest + 1),"b":gen_nest(r, depth, budget, nest + 1)}),
        _ => {
            let n = r.gen_range(1..4);
            let defs: Vec<Value> = (0..n).map(|_| json!({"n":name(r),"ann":gen_nest(r, depth + n, budget, nest + 3),"def":gen_nest(r, depth + n, budget, nest + 3)})).collect();
            json!({"k":"let","defs":defs,"b":gen_nest(r, depth + n, budget, nest + 3)})
        }
    }
}

// gv record-term <seed> <count> <max-nodes> <trace.ndjson>
pub fn record(args: &[String]) {
    util::quiet_panics();
    let seed: u64 = args[0].parse().unwrap();
    let count: usize = args[1].parse().unwrap();
    let max_nodes: i64 = args[2].parse().unwrap();
    let mut r = StdRng::seed_from_u64(seed);
    let mut out = String::new();
    for _ in 0..count {
        let mut budget = r.gen_range(10..=max_nodes);
        let tv = gen_term(&mut r, 0, &mut budget);
        let t = tj::from_json(&tv);
        let c = r.gen_range(0..4usize);
        let d = r.gen_range(-3..4isize);
        let res = util::guarded(|| de_bruijn::signed_shift(&t, c, d));
        let rj = match &res {
            Ok(Some(x)) => json!({"ok": true, "t": tj::tj(x)}),
            Ok(None) => json!({"ok": false}),
            Err(e) => json!({"ok": false, "panic": e}),
        };
        out += &format!("{}\n", json!({"ev":"shift","t":tv,"c":c,"d":d,"r":rj}));
        let mut b2 = r.gen_range(1..8);
        let uv = gen_term(&mut r, 0, &mut b2);
        let u = tj::from_json(&uv);
        let i = r.gen_range(0..4usize);
        let s = r.gen_range(0..3usize);
        let res = util::guarded(|| de_bruijn::open(&t, i, &u, s));
        let rj = match &res {
            Ok(x) => tj::tj(x),
            Err(e) => json!({"k": "panic", "msg": e}),
        };
        out += &format!("{}\n", json!({"ev":"open","t":tv,"i":i,"s":s,"u":uv,"r":rj}));
        let fv = util::guarded(|| sorted_fv(&t, c)).unwrap_or_default();
        out += &format!("{}\n", json!({"ev":"fv","t":tv,"c":c,"vs":fv}));
    }
    std::fs::write(&args[3], out).unwrap();
}
