// C01 - C06: the real pipeline (tokenize -> parse -> type_check -> step*) on programs, against the verdicts the
// specification prescribes (direction A) and as recorded events for TLC (direction B).
use crate::{evaluator, parser, sup, tj, token::Token, tokenizer, type_checker, util};
use serde_json::{json, Value};
use std::time::Duration;

// ---- source text of a De Bruijn term: fully parenthesised, every binder gets a fresh name
// does the JSON term refer to the variable with De Bruijn index `idx` (counted from where the term stands)?
pub fn refers(v: &Value, idx: u64) -> bool {
    match v["k"].as_str().unwrap_or("") {
        "var" => v["i"].as_u64() == Some(idx),
        "lam" | "pi" => refers(&v["a"], idx) || refers(&v["b"], idx + 1),
        "app" | "bin" => refers(&v["a"], idx) || refers(&v["b"], idx),
        "neg" => refers(&v["a"], idx),
        "if" => refers(&v["c"], idx) || refers(&v["a"], idx) || refers(&v["b"], idx),
        "let" => {
            let defs = v["defs"].as_array().unwrap();
            let n = defs.len() as u64;
            defs.iter().any(|d| refers(&d["ann"], idx + n) || refers(&d["def"], idx + n)) || refers(&v["b"], idx + n)
        }
        _ => false,
    }
}

pub struct Unparser {
    next: usize,
    pub pool: usize, // name pool (0: v1 v2 ...; others exercise keyword prefixes and non-ASCII names)
}
impl Unparser {
    pub fn new(pool: usize) -> Self {
        Unparser { next: 0, pool }
    }
    // pool 4: a binder that is never referred to is written `_` (the placeholder takes a slot but no name)
    fn fresh_for(&mut self, used: bool) -> String {
        if self.pool == 4 && !used {
            self.next += 1;
            return "_".to_string();
        }
        self.fresh()
    }
    fn fresh(&mut self) -> String {
        self.next += 1;
        match self.pool {
            0 | 4 => format!("v{}", self.next),
            1 => format!("if{}", self.next),
            2 => format!("\u{3bb}{}", self.next),
            _ => format!("type_{}", self.next),
        }
    }
    pub fn go(&mut self, v: &Value, env: &mut Vec<String>) -> String {
        let k = v["k"].as_str().unwrap();
        match k {
            "type" | "int" | "bool" | "true" | "false" => k.to_string(),
            "hole" => "_".to_string(),
            "lit" => {
                let n = tj::unbig(&v["v"]);
                if n.sign() == num_bigint::Sign::Minus { format!("(-{})", -n) } else { n.to_string() }
            }
            "var" => {
                let i = v["i"].as_u64().unwrap() as usize;
                if i < env.len() { env[env.len() - 1 - i].clone() } else { format!("free{}", i - env.len()) }
            }
            "lam" | "pi" => {
                let a = self.go(&v["a"], env);
                let x = self.fresh_for(refers(&v["b"], 0));
                env.push(x.clone());
                let b = self.go(&v["b"], env);
                env.pop();
                let arrow = if k == "lam" { "=>" } else { "->" };
                if v["imp"].as_bool().unwrap_or(false) { format!("({{{x} : {a}}} {arrow} {b})") } else { format!("(({x} : {a}) {arrow} {b})") }
            }
            "app" => format!("({} {})", self.go(&v["a"], env), self.go(&v["b"], env)),
            "neg" => format!("(- {})", self.go(&v["a"], env)),
            "if" => format!("(if {} then {} else {})", self.go(&v["c"], env), self.go(&v["a"], env), self.go(&v["b"], env)),
            "bin" => {
                let op = match v["op"].as_str().unwrap() {
                    "sum" => "+", "diff" => "-", "prod" => "*", "quot" => "/", "lt" => "<", "le" => "<=", "eq" => "==", "gt" => ">", "ge" => ">=",
                    o => panic!("op {o}"),
                };
                format!("({} {} {})", self.go(&v["a"], env), op, self.go(&v["b"], env))
            }
            "let" => {
                let defs = v["defs"].as_array().unwrap();
                let n = defs.len() as u64;
                let names: Vec<String> = (0..defs.len())
                    .map(|j| {
                        let idx = n - 1 - j as u64;
                        let used = refers(&v["b"], idx) || defs.iter().any(|d| refers(&d["ann"], idx) || refers(&d["def"], idx));
                        self.fresh_for(used)
                    })
                    .collect();
                env.extend(names.iter().cloned());
                let mut s = String::from("(");
                for (d, x) in defs.iter().zip(&names) {
                    let a = self.go(&d["ann"], env);
                    let e = self.go(&d["def"], env);
                    s += &format!("{x} : {a} = {e}; ");
                }
                s += &self.go(&v["b"], env);
                s += ")";
                env.truncate(env.len() - names.len());
                s
            }
            o => panic!("kind {o}"),
        }
    }
}

pub fn unparse(v: &Value, pool: usize) -> String {
    Unparser::new(pool).go(v, &mut vec![])
}

// identity of two JSON terms modulo names and hole identities
pub fn same_term(a: &Value, b: &Value) -> bool {
    match (a, b) {
        (Value::Object(x), Value::Object(y)) => {
            if x.get("k") != y.get("k") {
                return false;
            }
            let skip = |k: &str| k == "n" || (x.get("k").and_then(Value::as_str) == Some("hole") && k == "id");
            x.iter().filter(|(k, _)| !skip(k)).all(|(k, v)| y.get(k).is_some_and(|w| same_term(v, w)))
                && y.keys().filter(|k| !skip(k)).all(|k| x.contains_key(k))
        }
        (Value::Array(x), Value::Array(y)) => x.len() == y.len() && x.iter().zip(y).all(|(p, q)| same_term(p, q)),
        _ => a == b,
    }
}

pub fn has_hole(v: &Value) -> bool {
    match v {
        Value::Object(m) => m.get("k").and_then(Value::as_str) == Some("hole") || m.values().any(has_hole),
        Value::Array(a) => a.iter().any(has_hole),
        _ => false,
    }
}

pub struct Obs {
    pub stage: &'static str, // "lex" | "parse" | "check" | "run": the last stage reached
    pub parsed: Option<Value>,
    pub accepted: bool,
    pub nerr: usize,
    pub first_err: String,
    pub elab: Option<Value>,
    pub ty: Option<Value>,
    pub steps: Vec<Value>, // every intermediate term (only when `keep_steps`)
    pub nsteps: usize,
    pub end: Option<Value>,  // final term
    pub end_kind: String,    // "value" | "stuck" | "fuel"
    pub hole_opened: u64,
    pub whnf: Option<Value>,   // normalize_weak_head of the elaborated program (ground results of short runs): C06
    pub recheck: &'static str, // counterfactual for the hole-copy finding: the hole-free elaboration handed back to type_check
}

#[cfg(all(feature = "verif", have_hooks))]
fn hook_reset() { crate::verif_hooks::reset(); }
#[cfg(all(feature = "verif", have_hooks))]
fn hook_holes() -> u64 { crate::verif_hooks::holes_opened() }
#[cfg(not(all(feature = "verif", have_hooks)))]
fn hook_reset() {}
#[cfg(not(all(feature = "verif", have_hooks)))]
fn hook_holes() -> u64 { 0 }

pub fn observe(text: &str, fuel: usize, keep_steps: bool) -> Obs {
    let mut o = Obs { stage: "lex", parsed: None, accepted: false, nerr: 0, first_err: String::new(), elab: None, ty: None, steps: vec![], nsteps: 0, end: None, end_kind: String::new(), hole_opened: 0, whnf: None, recheck: "na" };
    let src: &'static str = tj::leak(text);
    let toks = match tokenizer::tokenize(None, src) {
        Ok(t) => t,
        Err(e) => { o.nerr = e.len(); o.first_err = e[0].message.clone(); return o; }
    };
    let toks: &'static [Token<'static>] = Box::leak(toks.into_boxed_slice());
    o.stage = "parse";
    let term = match parser::parse(None, src, toks, &[]) {
        Ok(t) => t,
        Err(e) => { o.nerr = e.len(); o.first_err = e[0].message.clone(); return o; }
    };
    // holes are shared cells that checking fills in: serialise the source BEFORE checking
    o.parsed = Some(tj::tj_with(&term, &mut tj::HoleIds::default(), false));
    o.stage = "check";
    hook_reset();
    let (mut tc, mut dc) = (vec![], vec![]);
    let (elab, ty) = match type_checker::type_check(None, src, &term, &mut tc, &mut dc) {
        Ok(x) => x,
        Err(e) => { o.nerr = e.len(); o.first_err = e[0].message.clone(); o.hole_opened = hook_holes(); return o; }
    };
    o.hole_opened = hook_holes();
    o.accepted = true;
    let mut ids = tj::HoleIds::default();
    o.elab = Some(tj::tj_with(&elab, &mut ids, true));
    o.ty = Some(tj::tj_with(&ty, &mut ids, true));
    if o.hole_opened > 0 {
        // The API takes a term, so no printing is involved and (the copy being hole-free) no hole can be opened.
        let copy = o.elab.as_ref().unwrap();
        if !has_hole(copy) {
            let t = tj::from_json(copy);
            let (mut tc2, mut dc2) = (vec![], vec![]);
            o.recheck = if type_checker::type_check(None, src, &t, &mut tc2, &mut dc2).is_ok() { "ok" } else { "err" };
        }
    }
    o.stage = "run";
    let mut cur = elab;
    loop {
        if o.nsteps >= fuel {
            o.end_kind = "fuel".into();
            break;
        }
        match evaluator::step(&cur) {
            Some(n) => {
                cur = n;
                o.nsteps += 1;
                if keep_steps {
                    o.steps.push(tj::tj(&cur));
                }
            }
            None => {
                o.end_kind = if evaluator::is_value(&cur) { "value".into() } else { "stuck".into() };
                break;
            }
        }
    }
    o.end = Some(tj::tj(&cur));
    // C06 (i): the checker's way of computing (weak-head normalisation) on a program that ran to a ground value
    if o.end_kind == "value" && o.nsteps <= 1500 && matches!(o.end.as_ref().unwrap()["k"].as_str(), Some("lit" | "true" | "false")) {
        let el = tj::from_json(o.elab.as_ref().unwrap());
        o.whnf = Some(tj::tj(&crate::normalizer::normalize_weak_head(&el, &mut vec![])));
    }
    o
}

pub fn depth(v: &Value) -> usize {
    match v {
        Value::Object(m) => 1 + m.values().map(depth).max().unwrap_or(0),
        Value::Array(a) => 1 + a.iter().map(depth).max().unwrap_or(0),
        _ => 0,
    }
}

fn event(src: &Value, o: &Obs, origin: &str) -> Value {
    let none = json!({"k": "none"});
    // JSON readers on both sides stop at a nesting depth (serde_json 128, Gson 255): a run whose terms grow deeper than that
    // is reported as "still running" (inconclusive), never judged on a truncated term
    let too_deep = o.end.as_ref().is_some_and(|e| depth(e) > 100) || o.steps.iter().any(|s| depth(s) > 100);
    if too_deep {
        let mut o2 = Obs { stage: o.stage, parsed: o.parsed.clone(), accepted: o.accepted, nerr: o.nerr, first_err: String::new(), elab: o.elab.clone(), ty: o.ty.clone(),
            steps: vec![], nsteps: o.nsteps, end: None, end_kind: "fuel".into(), hole_opened: o.hole_opened, whnf: None, recheck: o.recheck };
        o2.nsteps = o.nsteps;
        return event(src, &o2, origin);
    }
    json!({"ev": "prog", "origin": origin, "src": o.parsed.clone().unwrap_or(none.clone()), "gen": if src.is_null() { none.clone() } else { src.clone() }, "stage": o.stage, "accepted": o.accepted, "nerr": o.nerr,
           "elab": o.elab.clone().unwrap_or(none.clone()), "ty": o.ty.clone().unwrap_or(none.clone()), "steps": o.steps, "nsteps": o.nsteps,
           "end": o.end.clone().unwrap_or(none), "endk": o.end_kind, "holes_opened": o.hole_opened, "recheck": o.recheck, "whnf": o.whnf.clone().unwrap_or(json!({"k": "none"}))})
}

// One case of direction A.  Input: {"t":term,"holes":bool,"v":{ty,why,tyT,dord,out},"ev":bool}
// Output: {"mism":[{"prop","what",...}], "event": <event or null>, "cls": <bookkeeping>}
pub fn replay_case(line: &str, fuel: usize) -> String {
    let rec: Value = serde_json::from_str(line).unwrap();
    let t = &rec["t"];
    let text = unparse(t, rec["pool"].as_u64().unwrap_or(0) as usize);
    let want_event = rec["ev"].as_bool().unwrap_or(false);
    let o = match util::guarded(|| observe(&text, fuel, want_event)) {
        Ok(o) => o,
        Err(p) => return json!({"mism": [{"prop": "C14", "what": "panic", "msg": p, "text": text}], "event": null}).to_string(),
    };
    let mut mism: Vec<Value> = vec![];
    let mut push = |prop: &str, what: &str, extra: Value| {
        mism.push(json!({"prop": prop, "what": what, "text": text, "gen": t, "detail": extra}));
    };
    let mut cls = "ok";
    match &o.parsed {
        None => {
            // the generated program is a sentence with well-scoped names: rejection before checking can only be the
            // definition-order diagnostic (or a parser defect, reported by C07/C08)
            cls = "rejected-before-check";
        }
        Some(p) if !same_term(p, t) => {
            cls = "parsed-differently";
        }
        _ => {}
    }
    let holes = rec["holes"].as_bool().unwrap_or(false);
    if !holes && cls != "parsed-differently" {
        let v = &rec["v"];
        let ty = v["ty"].as_str().unwrap();
        let dord = v["dord"].as_str().unwrap();
        let spec_accepts = ty == "ok" && dord == "ok";
        let spec_rejects = ty == "ill" || dord == "bad";
        if o.accepted && spec_rejects {
            if ty == "ill" {
                push("C03", "accepted although ill typed", json!({"why": v["why"], "elab": o.elab, "holes_opened": o.hole_opened}));
            } else {
                push("C01", "accepted although a definition is not available in time", json!({"dord": dord}));
            }
        }
        if !o.accepted && spec_accepts {
            push("C05", "rejected although fully annotated and well typed", json!({"stage": o.stage, "err": crate::diag::plain_str(&o.first_err), "type": v["tyT"]}));
        }
        if o.accepted {
            if !same_term(o.elab.as_ref().unwrap(), t) {
                push("C05", "elaboration rewrote a hole-free program", json!({"elab": o.elab}));
            }
            if spec_accepts {
                let out = &v["out"];
                // C06 (i): normalising a closed ground program the way the checker does = evaluating it
                if out["r"] == "end" && out["why"] == "value" && matches!(out["t"]["k"].as_str(), Some("lit" | "true" | "false")) {
                    let el = tj::from_json(o.elab.as_ref().unwrap());
                    let w = tj::tj(&crate::normalizer::normalize_weak_head(&el, &mut vec![]));
                    if !same_term(&w, &out["t"]) {
                        push("C06", "weak-head normal form differs from the value of the program", json!({"whnf": w, "value": out["t"]}));
                    }
                    match crate::evaluator::evaluate(&el) {
                        Ok(val) if same_term(&tj::tj(&val), &out["t"]) => {}
                        Ok(val) => push("C06", "evaluate() differs from the prescribed value", json!({"value": tj::tj(&val), "want": out["t"]})),
                        Err(e) => push("C06", "evaluate() fails where the semantics produces a value", json!({"err": crate::diag::plain(&e), "want": out["t"]})),
                    }
                }
                if out["r"] == "end" {
                    let spec_end = &out["t"];
                    let why = out["why"].as_str().unwrap();
                    let spec_value = why == "value";
                    if o.end_kind == "fuel" {
                        push("C02", "still running after the specification's run ended", json!({"spec_end": spec_end}));
                    } else if spec_value {
                        if o.end_kind != "value" {
                            push("C01", "stuck where the semantics produces a value", json!({"end": o.end, "spec_end": spec_end}));
                        } else if !same_term(o.end.as_ref().unwrap(), spec_end) {
                            push("C02", "value differs from the prescribed value", json!({"end": o.end, "spec_end": spec_end}));
                        }
                    } else if o.end_kind == "value" {
                        push("C02", "produced a value where the semantics is stuck", json!({"end": o.end, "why": why}));
                    } else if why != "divzero" {
                        push("C01", "stuck for a reason other than division by zero", json!({"end": o.end, "why": why}));
                    }
                }
            } else if o.end_kind == "stuck" {
                // accepted by the implementation although the specification would not: the end state still counts for C01
                push("C01", "accepted program is stuck", json!({"end": o.end}));
            }
        }
    }
    let ev = if want_event && o.parsed.is_some() { event(t, &o, "enum") } else { Value::Null };
    json!({"mism": mism, "event": ev, "cls": cls, "accepted": o.accepted, "endk": o.end_kind}).to_string()
}

// gv replay-pipeline <tlc-output> <out.json> <events.ndjson> <event-every-k> <fuel>
pub fn replay(args: &[String]) {
    let lines = util::tagged_lines(&args[0], "PROG");
    let every: usize = args[3].parse().unwrap();
    let items: Vec<String> = lines
        .iter()
        .enumerate()
        .map(|(i, l)| {
            let mut rec = util::parse_tlc_line(l, "PROG").expect("bad PROG line");
            rec["ev"] = json!(every > 0 && i % every == 0);
            rec["pool"] = json!(i % 5);
            rec.to_string()
        })
        .collect();
    let answers = sup::run("pipeline", &[args[4].clone()], &items, Duration::from_secs(20));
    summarize(&items, answers, &args[1], &args[2]);
}

pub fn summarize(items: &[String], answers: Vec<sup::Answer>, out_path: &str, ev_path: &str) {
    let mut mism: Vec<Value> = vec![];
    let mut events = String::new();
    let (mut accepted, mut crashes, mut timeouts, mut parsed_diff, mut rejected_early) = (0u64, 0u64, 0u64, 0u64, 0u64);
    let mut ends: std::collections::BTreeMap<String, u64> = Default::default();
    for (item, a) in items.iter().zip(answers) {
        match a {
            sup::Answer::Line(l) => {
                let v: Value = serde_json::from_str(&l).unwrap_or(json!({"mism": [{"prop": "tool", "what": "bad worker answer"}]}));
                for m in v["mism"].as_array().cloned().unwrap_or_default() {
                    mism.push(m);
                }
                if !v["event"].is_null() {
                    events += &format!("{}\n", v["event"]);
                }
                if v["accepted"] == json!(true) {
                    accepted += 1;
                    *ends.entry(v["endk"].as_str().unwrap_or("").to_string()).or_default() += 1;
                }
                match v["cls"].as_str() {
                    Some("parsed-differently") => parsed_diff += 1,
                    Some("rejected-before-check") => rejected_early += 1,
                    _ => {}
                }
            }
            sup::Answer::Crash(msg) => {
                crashes += 1;
                let rec: Value = serde_json::from_str(item).unwrap();
                mism.push(json!({"prop": "crash", "what": "worker process died (stack overflow / abort)", "msg": msg, "gen": rec["t"], "text": unparse(&rec["t"], 0), "v": rec["v"]}));
            }
            sup::Answer::Timeout => {
                timeouts += 1;
                let rec: Value = serde_json::from_str(item).unwrap();
                mism.push(json!({"prop": "timeout", "what": "no answer within the per-case time limit", "gen": rec["t"], "text": unparse(&rec["t"], 0), "v": rec["v"]}));
            }
        }
    }
    let out = json!({"cases": items.len(), "accepted": accepted, "ends": ends, "crashes": crashes, "timeouts": timeouts, "parsed_differently": parsed_diff,
        "rejected_before_check": rejected_early, "mismatches": mism.len(), "mism": mism.iter().take(3000).collect::<Vec<_>>()});
    std::fs::write(out_path, serde_json::to_string(&out).unwrap()).unwrap();
    std::fs::write(ev_path, events).unwrap();
}

pub fn worker(args: &[String]) {
    util::quiet_panics();
    let fuel: usize = args.first().and_then(|s| s.parse().ok()).unwrap_or(60);
    sup::serve(move |line| replay_case(line, fuel));
}

// ---- direction B driver: run programs given as text, one event per program
// input line: {"text":..,"origin":..,"steps":bool}
pub fn record_case(line: &str, fuel: usize) -> String {
    let rec: Value = serde_json::from_str(line).unwrap();
    let text = rec["text"].as_str().unwrap();
    let keep = rec["steps"].as_bool().unwrap_or(false);
    match util::guarded(|| observe(text, fuel, keep)) {
        Ok(o) => {
            let mut ev = event(rec.get("gen").unwrap_or(&Value::Null), &o, rec["origin"].as_str().unwrap_or(""));
            ev["text"] = json!(crate::tj::ascii(text));
            json!({"mism": [], "event": ev, "accepted": o.accepted, "endk": o.end_kind, "cls": "ok"}).to_string()
        }
        Err(p) => json!({"mism": [{"prop": "C14", "what": "panic", "msg": p, "text": text}], "event": null}).to_string(),
    }
}

// gv record-pipeline <programs.jsonl> <out.json> <events.ndjson> <fuel> <keep-steps-every-k>
pub fn record(args: &[String]) {
    let every: usize = args[4].parse().unwrap();
    let items: Vec<String> = util::read_lines(&args[0])
        .into_iter()
        .filter(|l| !l.trim().is_empty())
        .enumerate()
        .map(|(i, l)| {
            let mut rec: Value = serde_json::from_str(&l).unwrap();
            rec["steps"] = json!(every > 0 && i % every == 0);
            rec.to_string()
        })
        .collect();
    let answers = sup::run("record", &[args[3].clone()], &items, Duration::from_secs(30));
    // crashes / timeouts carry the text instead of a generated term
    let mut mism: Vec<Value> = vec![];
    let mut events = String::new();
    let (mut accepted, mut crashes, mut timeouts) = (0u64, 0u64, 0u64);
    for (item, a) in items.iter().zip(answers) {
        let rec: Value = serde_json::from_str(item).unwrap();
        match a {
            sup::Answer::Line(l) => {
                let v: Value = serde_json::from_str(&l).unwrap();
                for m in v["mism"].as_array().cloned().unwrap_or_default() {
                    mism.push(m);
                }
                if !v["event"].is_null() {
                    events += &format!("{}\n", v["event"]);
                }
                if v["accepted"] == json!(true) {
                    accepted += 1;
                }
            }
            sup::Answer::Crash(msg) => {
                crashes += 1;
                mism.push(json!({"prop": "crash", "what": "worker process died (stack overflow / abort)", "msg": msg, "text": rec["text"], "origin": rec["origin"]}));
            }
            sup::Answer::Timeout => {
                timeouts += 1;
                mism.push(json!({"prop": "timeout", "what": "no answer within the per-case time limit", "text": rec["text"], "origin": rec["origin"]}));
            }
        }
    }
    let out = json!({"cases": items.len(), "accepted": accepted, "crashes": crashes, "timeouts": timeouts, "mismatches": mism.len(), "mism": mism});
    std::fs::write(&args[1], serde_json::to_string(&out).unwrap()).unwrap();
    std::fs::write(&args[2], events).unwrap();
}

pub fn record_worker(args: &[String]) {
    util::quiet_panics();
    let fuel: usize = args.first().and_then(|s| s.parse().ok()).unwrap_or(400);
    sup::serve(move |line| record_case(line, fuel));
}


// ---- unparser that records the byte span of every subterm (path -> [start, end) of the subterm WITHOUT the
// parentheses the unparser puts around it), optionally spreading the text over several lines
pub struct SpanUnparser {
    pub out: String,
    pub spans: Vec<(Vec<String>, usize, usize)>,
    next: usize,
    multiline: bool,
}
impl SpanUnparser {
    pub fn new(prefix: &str, multiline: bool) -> Self {
        SpanUnparser { out: prefix.to_string(), spans: vec![], next: 0, multiline }
    }
    fn fresh(&mut self) -> String {
        self.next += 1;
        format!("\u{e9}{}", self.next) // non-ASCII names: columns after them differ in bytes and characters
    }
    fn open(&mut self) {
        self.out.push('(');
        if self.multiline {
            self.out.push_str("\n  ");
        }
    }
    pub fn go(&mut self, v: &Value, env: &mut Vec<String>, path: Vec<String>) {
        let k = v["k"].as_str().unwrap();
        let atom = matches!(k, "type" | "int" | "bool" | "true" | "false" | "hole" | "var") || (k == "lit");
        if !atom {
            self.open();
        }
        let start = self.out.len();
        let sub = |p: &Vec<String>, x: &str| {
            let mut q = p.clone();
            q.push(x.to_string());
            q
        };
        match k {
            "type" | "int" | "bool" | "true" | "false" => self.out.push_str(k),
            "hole" => self.out.push('_'),
            "lit" => self.out.push_str(&tj::unbig(&v["v"]).to_string()),
            "var" => {
                let i = v["i"].as_u64().unwrap() as usize;
                let n = if i < env.len() { env[env.len() - 1 - i].clone() } else { format!("free{}", i - env.len()) };
                self.out.push_str(&n);
            }
            "lam" | "pi" => {
                let x = self.fresh();
                let imp = v["imp"].as_bool().unwrap_or(false);
                self.out.push_str(if imp { "{" } else { "(" });
                self.out.push_str(&x);
                self.out.push_str(" : ");
                self.go(&v["a"], env, sub(&path, "a"));
                self.out.push_str(if imp { "}" } else { ")" });
                self.out.push_str(if k == "lam" { " => " } else { " -> " });
                env.push(x);
                self.go(&v["b"], env, sub(&path, "b"));
                env.pop();
            }
            "app" => {
                self.go(&v["a"], env, sub(&path, "a"));
                self.out.push(' ');
                self.go(&v["b"], env, sub(&path, "b"));
            }
            "neg" => {
                self.out.push_str("- ");
                self.go(&v["a"], env, sub(&path, "a"));
            }
            "if" => {
                self.out.push_str("if ");
                self.go(&v["c"], env, sub(&path, "c"));
                self.out.push_str(if self.multiline { "\n  then " } else { " then " });
                self.go(&v["a"], env, sub(&path, "a"));
                self.out.push_str(if self.multiline { "\n  else " } else { " else " });
                self.go(&v["b"], env, sub(&path, "b"));
            }
            "bin" => {
                let op = match v["op"].as_str().unwrap() {
                    "sum" => "+", "diff" => "-", "prod" => "*", "quot" => "/", "lt" => "<", "le" => "<=", "eq" => "==", "gt" => ">", "ge" => ">=",
                    o => panic!("op {o}"),
                };
                self.go(&v["a"], env, sub(&path, "a"));
                self.out.push_str(if self.multiline { " " } else { " " });
                self.out.push_str(op);
                self.out.push_str(if self.multiline { "\n    " } else { " " });
                self.go(&v["b"], env, sub(&path, "b"));
            }
            "let" => {
                let defs = v["defs"].as_array().unwrap();
                let names: Vec<String> = defs.iter().map(|_| self.fresh()).collect();
                env.extend(names.iter().cloned());
                for (j, (d, x)) in defs.iter().zip(&names).enumerate() {
                    self.out.push_str(x);
                    self.out.push_str(" : ");
                    let mut pa = path.clone();
                    pa.extend(["defs".to_string(), j.to_string(), "ann".to_string()]);
                    self.go(&d["ann"], env, pa);
                    self.out.push_str(" = ");
                    let mut pd = path.clone();
                    pd.extend(["defs".to_string(), j.to_string(), "def".to_string()]);
                    self.go(&d["def"], env, pd);
                    self.out.push_str(if self.multiline { "\n  " } else { "; " });
                }
                self.go(&v["b"], env, sub(&path, "b"));
                env.truncate(env.len() - names.len());
            }
            o => panic!("kind {o}"),
        }
        let end = self.out.len();
        self.spans.push((path, start, end));
        if !atom {
            self.out.push(')');
        }
    }
}
