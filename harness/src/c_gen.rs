// Program generators for direction B (inputs beyond the exhaustive bound).  They produce SOURCE TEXT; every verdict
// about what the real pipeline does with it is TLC's (Trace_Pipeline).
use crate::{c_pipe, corpus, parser, tj, token::Token, tokenizer};
use rand::{rngs::StdRng, seq::SliceRandom, Rng, SeedableRng};
use serde_json::{json, Value};

pub fn parse_to_json(text: &str) -> Option<Value> {
    let src: &'static str = tj::leak(text);
    let toks = tokenizer::tokenize(None, src).ok()?;
    let toks: &'static [Token<'static>] = Box::leak(toks.into_boxed_slice());
    let t = parser::parse(None, src, toks, &[]).ok()?;
    Some(tj::tj_with(&t, &mut tj::HoleIds::default(), false))
}

// all subterm positions as JSON-pointer-like paths, with a tag of what kind of position it is
fn positions(v: &Value, path: Vec<String>, role: &str, out: &mut Vec<(Vec<String>, String)>) {
    out.push((path.clone(), role.to_string()));
    let k = v["k"].as_str().unwrap_or("");
    let child = |name: &str, role: &str, out: &mut Vec<(Vec<String>, String)>| {
        let mut p = path.clone();
        p.push(name.to_string());
        positions(&v[name], p, role, out);
    };
    match k {
        "lam" | "pi" => {
            child("a", "annotation", out);
            child("b", "body", out);
        }
        "app" => {
            child("a", "applicand", out);
            child("b", "argument", out);
        }
        "bin" => {
            child("a", "operand", out);
            child("b", "operand", out);
        }
        "neg" => child("a", "operand", out),
        "if" => {
            child("c", "condition", out);
            child("a", "branch", out);
            child("b", "branch", out);
        }
        "let" => {
            for (j, d) in v["defs"].as_array().unwrap().iter().enumerate() {
                for (f, role) in [("ann", "annotation"), ("def", "definition")] {
                    let mut p = path.clone();
                    p.extend(["defs".to_string(), j.to_string(), f.to_string()]);
                    positions(&d[f], p, role, out);
                }
            }
            child("b", "body", out);
        }
        _ => {}
    }
}

fn get_mut<'v>(v: &'v mut Value, path: &[String]) -> &'v mut Value {
    let mut cur = v;
    for p in path {
        cur = if let Ok(i) = p.parse::<usize>() { &mut cur[i] } else { &mut cur[p.as_str()] };
    }
    cur
}

fn lit(n: i64) -> Value {
    json!({"k": "lit", "v": tj::big(&n.into())})
}

// single-node perturbations (most make the program ill typed; the verdict is TLC's, not ours)
pub fn perturb(r: &mut StdRng, t: &Value) -> Value {
    let mut out = t.clone();
    let mut pos = vec![];
    positions(t, vec![], "root", &mut pos);
    let (path, _role) = pos.choose(r).unwrap().clone();
    let node = get_mut(&mut out, &path);
    let k = node["k"].as_str().unwrap_or("").to_string();
    let choice = r.gen_range(0..9);
    let new = match (choice, k.as_str()) {
        (0, _) => json!({"k": "true"}),
        (1, _) => lit(r.gen_range(0..3)),
        (2, _) => json!({"k": "type"}),
        (3, _) => json!({"k": "int"}),
        (4, "if") => json!({"k": "if", "c": node["c"], "a": node["b"], "b": node["a"]}),
        (4, "bin") | (4, "app") => {
            let mut n = node.clone();
            n["a"] = node["b"].clone();
            n["b"] = node["a"].clone();
            n
        }
        (5, "bin") => {
            let mut n = node.clone();
            n["op"] = json!(["sum", "diff", "prod", "quot", "lt", "le", "eq", "gt", "ge"].choose(r).unwrap());
            n
        }
        (5, "lit") => json!({"k": "false"}),
        (6, _) => json!({"k": "neg", "a": node.clone()}),
        (7, _) => json!({"k": "app", "a": node.clone(), "b": lit(1)}),
        (8, _) => json!({"k": "if", "c": node.clone(), "a": lit(1), "b": lit(2)}),
        _ => json!({"k": "bool"}),
    };
    *node = new;
    out
}

// replace an annotation / argument / codomain by a hole, so inference has to carry holes through substitution
pub fn punch(r: &mut StdRng, t: &Value) -> Value {
    let mut out = t.clone();
    let mut pos = vec![];
    positions(t, vec![], "root", &mut pos);
    let cands: Vec<_> = pos.iter().filter(|(p, role)| !p.is_empty() && (role == "annotation" || role == "argument" || (role == "body" && r.gen_bool(0.1)))).cloned().collect();
    if let Some((path, _)) = cands.choose(r) {
        *get_mut(&mut out, path) = json!({"k": "hole", "id": 1, "sh": 0});
    }
    out
}

// dead-code junk in an annotation: `if true then A else J` with ill-typed J (smallest shape in which an unchecked
// annotation is observable)
pub fn junk_annotation(r: &mut StdRng, t: &Value) -> Value {
    let mut out = t.clone();
    let mut pos = vec![];
    positions(t, vec![], "root", &mut pos);
    let cands: Vec<_> = pos.iter().filter(|(_, role)| role == "annotation").cloned().collect();
    if let Some((path, _)) = cands.choose(r) {
        let node = get_mut(&mut out, path);
        let a = node.clone();
        let junk = match r.gen_range(0..3) {
            0 => json!({"k": "bin", "op": "sum", "a": {"k": "true"}, "b": lit(1)}),
            1 => json!({"k": "app", "a": lit(3), "b": lit(4)}),
            _ => json!({"k": "if", "c": lit(0), "a": {"k": "int"}, "b": {"k": "bool"}}),
        };
        *node = if r.gen_bool(0.5) {
            json!({"k": "if", "c": {"k": "true"}, "a": a, "b": junk})
        } else {
            // ((x : J) => A) J'   -- the annotation computes to A but contains an ill-typed binder annotation
            json!({"k": "app", "a": {"k": "lam", "n": "j", "imp": false, "a": junk, "b": crate::c_gen::raise(&a)}, "b": lit(0)})
        };
    }
    out
}

// raise all free indices of a JSON term by one (the term is moved under one new binder) using the real shift
pub fn raise(v: &Value) -> Value {
    let t = tj::from_json(v);
    tj::tj_with(&crate::de_bruijn::unsigned_shift(&t, 0, 1), &mut tj::HoleIds::default(), false)
}

fn big_digits(r: &mut StdRng) -> String {
    let special = ["0", "1", "9999", "10000", "9223372036854775807", "9223372036854775808", "18446744073709551615", "18446744073709551616",
        "340282366920938463463374607431768211456", "99999999", "100000000"];
    if r.gen_bool(0.4) {
        special.choose(r).unwrap().to_string()
    } else {
        let n = r.gen_range(1..90);
        let mut s: String = (0..n).map(|_| char::from(b'0' + r.gen_range(0..10u8))).collect();
        if s.starts_with('0') && s.len() > 1 {
            s.replace_range(0..1, "7");
        }
        s
    }
}

pub fn bigint_program(r: &mut StdRng) -> String {
    let ops = ["+", "-", "*", "/", "<", "<=", "==", ">", ">="];
    let operand = |r: &mut StdRng| {
        let d = big_digits(r);
        if r.gen_bool(0.4) { format!("(-{d})") } else { d }
    };
    let a = operand(r);
    let b = if r.gen_bool(0.15) { a.clone() } else { operand(r) };
    let op = ops.choose(r).unwrap();
    match r.gen_range(0..4) {
        0 => format!("{a} {op} {b}"),
        1 => format!("x = {a}\ny = {b}\nx {op} y"),
        2 => format!("f = (p : int) => (q : int) => p {op} q\nf {a} {b}"),
        _ => format!("if {a} {} {b} then {a} {} {b} else {b} {} {a}", ["<", "<=", "==", ">", ">="].choose(r).unwrap(), ["+", "-", "*", "/"].choose(r).unwrap(), ["+", "-", "*", "/"].choose(r).unwrap()),
    }
}

pub fn recursion_program(r: &mut StdRng, maxn: u32) -> String {
    let n = r.gen_range(0..=maxn);
    match r.gen_range(0..6) {
        0 => format!("factorial : int -> int = (x : int) => if x == 0 then 1 else x * factorial (x - 1)\nfactorial {n}"),
        1 => {
            let n = n.min(15);
            format!("fib : int -> int = (n : int) => if n < 2 then n else fib (n - 1) + fib (n - 2)\nfib {n}")
        }
        2 => format!("even : int -> bool = (n : int) => if n == 0 then true else odd (n - 1)\nodd : int -> bool = (n : int) => if n == 0 then false else even (n - 1)\neven {n}"),
        3 => format!("sum : int -> int -> int = (n : int) => (acc : int) => if n <= 0 then acc else sum (n - 1) (acc + n)\nsum {n} 0"),
        4 => format!("pow : int -> int -> int = (b : int) => (e : int) => if e == 0 then 1 else b * pow b (e - 1)\npow (-3) {n} / pow 2 {n}"),
        _ => format!("twice = (f : int -> int) => (x : int) => f (f x)\ninc = (x : int) => x + {n}\ntwice (twice inc) 0 - {n}"),
    }
}

// gv gen-programs <kind> <seed> <count>  -> stdout: one {"text":..,"origin":..} per line
pub fn main(args: &[String]) {
    let kind = args[0].as_str();
    let seed: u64 = args[1].parse().unwrap();
    let count: usize = args[2].parse().unwrap();
    let mut r = StdRng::seed_from_u64(seed);
    let progs: Vec<String> = corpus::programs().into_iter().filter(|p| !p.contains("exfalso") && !p.contains("t = int -> t")).collect();
    let parsed: Vec<Value> = progs.iter().filter_map(|p| parse_to_json(p)).collect();
    let mut out = String::new();
    let mut emit = |text: String, origin: &str| {
        out += &format!("{}\n", json!({"text": text, "origin": origin}));
    };
    match kind {
        "corpus" => {
            for p in &progs {
                emit(p.clone(), "corpus");
            }
        }
        "perturb" => {
            for i in 0..count {
                let base = parsed.choose(&mut r).unwrap();
                let t = perturb(&mut r, base);
                emit(c_pipe::unparse(&t, i % 4), "perturb");
            }
        }
        "punch" => {
            for i in 0..count {
                let base = parsed.choose(&mut r).unwrap();
                let mut t = punch(&mut r, base);
                if r.gen_bool(0.3) {
                    t = punch(&mut r, &t);
                }
                emit(c_pipe::unparse(&t, i % 4), "punch");
            }
        }
        "junk" => {
            for i in 0..count {
                let base = parsed.choose(&mut r).unwrap();
                let t = junk_annotation(&mut r, base);
                emit(c_pipe::unparse(&t, i % 4), "junk");
            }
        }
        "bigint" => {
            for _ in 0..count {
                emit(bigint_program(&mut r), "bigint");
            }
        }
        "recursion" => {
            let maxn: u32 = args.get(3).and_then(|s| s.parse().ok()).unwrap_or(12);
            for _ in 0..count {
                emit(recursion_program(&mut r, maxn), "recursion");
            }
        }
        "hopunch" => {
            // complete: every single-node replacement x every single punched position, on the small higher-order programs
            let mut n = 0;
            'outer: for src in corpus::HIGHER_ORDER {
                let Some(t) = parse_to_json(src) else { continue };
                let mut pos = vec![];
                positions(&t, vec![], "root", &mut pos);
                let repl = [json!({"k": "true"}), lit(1), json!({"k": "int"}), json!({"k": "bool"})];
                let mut variants: Vec<Value> = vec![t.clone()];
                for (path, _) in &pos {
                    if path.is_empty() {
                        continue;
                    }
                    for rv in &repl {
                        let mut v = t.clone();
                        *get_mut(&mut v, path) = rv.clone();
                        variants.push(v);
                    }
                }
                for v in &variants {
                    let mut vpos = vec![];
                    positions(v, vec![], "root", &mut vpos);
                    for (path, role) in &vpos {
                        let parent_is_pi = path.len() >= 1 && {
                            let mut pp = path.clone();
                            pp.pop();
                            let mut vv = v.clone();
                            get_mut(&mut vv, &pp)["k"] == "pi"
                        };
                        if path.is_empty() || !(role == "annotation" || role == "argument" || (role == "body" && parent_is_pi)) {
                            continue;
                        }
                        let mut h = v.clone();
                        *get_mut(&mut h, path) = json!({"k": "hole", "id": 1, "sh": 0});
                        emit(c_pipe::unparse(&h, n % 4), "hopunch");
                        n += 1;
                        if count > 0 && n >= count {
                            break 'outer;
                        }
                    }
                }
            }
        }
        "alias" => {
            // groups whose annotations are alias chains through the group, in every order, used at ground type outside
            for _ in 0..count {
                let l = r.gen_range(1..4);
                let base = ["int", "bool", "int -> int"][r.gen_range(0..3)];
                let value = match base { "int" => "4", "bool" => "true", _ => "(q : int) => q + 1" };
                let mut defs = vec![format!("y : a1 = {value}")];
                for j in 1..=l {
                    let rhs = if j == l { base.to_string() } else { format!("a{}", j + 1) };
                    defs.push(if r.gen_bool(0.5) { format!("a{j} = {rhs}") } else { format!("a{j} : type = {rhs}") });
                }
                defs.shuffle(&mut r);
                let group = defs.join("; ");
                let text = match (base, r.gen_range(0..3)) {
                    ("int", 0) => format!("({group}; y) + 1"),
                    ("int", 1) => format!("{group}; y + 1"),
                    ("bool", 0) => format!("if ({group}; y) then 1 else 2"),
                    ("int -> int", 0) => format!("({group}; y) 3"),
                    ("int -> int", _) => format!("{group}; y 3"),
                    _ => format!("{group}; y"),
                };
                emit(text, "alias");
            }
        }
        k => panic!("unknown generator {k}"),
    }
    print!("{out}");
}
