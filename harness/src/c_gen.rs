// Program generators for direction B (inputs beyond the exhaustive bound).  They produce SOURCE TEXT; every verdict
// about what the real pipeline does with it is TLC's (Trace_Pipeline).
use crate::{c_pipe, corpus, parser, tj, token::Token, tokenizer};
use rand::{rngs::StdRng, seq::SliceRandom, Rng, SeedableRng};
use serde_json::{json, Value};

pub fn parse_to_json(text: &str) -> Option<Value> {
    let src: &'static str = tj::leak(text);
    let toks = tokenizer::tokenize(None, src).ok()?;
    let toks: &'static [Token<'static>] = Box::leak(toks.into_boxed_slice());
    let t = parser::parse(None, src, toks, &[]).ok()?;
    Some(tj::tj_with(&t, &mut tj::HoleIds::default(), false))
}

// all subterm positions as JSON-pointer-like paths, with a tag of what kind of position it is
fn positions(v: &Value, path: Vec<String>, role: &str, out: &mut Vec<(Vec<String>, String)>) {
    out.push((path.clone(), role.to_string()));
    let k = v["k"].as_str().unwrap_or("");
    let child = |name: &str, role: &str, out: &mut Vec<(Vec<String>, String)>| {
        let mut p = path.clone();
        p.push(name.to_string());
        positions(&v[name], p, role, out);
    };
    match k {
        "lam" | "pi" => {
            child("a", "annotation", out);
            child("b", "body", out);
        }
        "app" => {
            child("a", "applicand", out);
            child("b", "argument", out);
        }
        "bin" => {
            child("a", "operand", out);
            child("b", "operand", out);
        }
        "neg" => child("a", "operand", out),
        "if" => {
            child("c", "condition", out);
            child("a", "branch", out);
            child("b", "branch", out);
        }
        "let" => {
            for (j, d) in v["defs"].as_array().unwrap().iter().enumerate() {
                for (f, role) in [("ann", "annotation"), ("def", "definition")] {
                    let mut p = path.clone();
                    p.extend(["defs".to_string(), j.to_string(), f.to_string()]);
                    positions(&d[f], p, role, out);
                }
            }
            child("b", "body", out);
        }
        _ => {}
    }
}

fn get_mut<'v>(v: &'v mut Value, path: &[String]) -> &'v mut Value {
    let mut cur = v;
    for p in path {
        cur = if let Ok(i) = p.parse::<usize>() { &mut cur[i] } else { &mut cur[p.as_str()] };
    }
    cur
}

fn lit(n: i64) -> Value {
    json!({"k": "lit", "v": tj::big(&n.into())})
}

// single-node perturbations (most make the program ill typed; the verdict is TLC's, not ours)
pub fn perturb(r: &mut StdRng, t: &Value) -> Value {
    let mut out = t.clone();
    let mut pos = vec![];
    positions(t, vec![], "root", &mut pos);
    let (path, _role) = pos.choose(r).unwrap().clone();
    let node = get_mut(&mut out, &path);
    let k = node["k"].as_str().unwrap_or("").to_string();
    let choice = r.gen_range(0..9);
    let new = match (choice, k.as_str()) {
        (0, _) => json!({"k": "true"}),
        (1, _) => lit(r.gen_range(0..3)),
        (2, _) => json!({"k": "type"}),
        (3, _) => json!({"k": "int"}),
        (4, "if") => json!({"k": "if", "c": node["c"], "a": node["b"], "b": node["a"]}),
        (4, "bin") | (4, "app") => {
            let mut n = node.clone();
            n["a"] = node["b"].clone();
            n["b"] = node["a"].clone();
            n
        }
        (5, "bin") => {
            let mut n = node.clone();
            n["op"] = json!(["sum", "diff", "prod", "quot", "lt", "le", "eq", "gt", "ge"].choose(r).unwrap());
            n
        }
        (5, "lit") => json!({"k": "false"}),
        (6, _) => json!({"k": "neg", "a": node.clone()}),
        (7, _) => json!({"k": "app", "a": node.clone(), "b": lit(1)}),
        (8, _) => json!({"k": "if", "c": node.clone(), "a": lit(1), "b": lit(2)}),
        _ => json!({"k": "bool"}),
    };
    *node = new;
    out
}

// replace an annotation / argument / codomain by a hole, so inference has to carry holes through substitution
pub fn punch(r: &mut StdRng, t: &Value) -> Value {
    let mut out = t.clone();
    let mut pos = vec![];
    positions(t, vec![], "root", &mut pos);
    let cands: Vec<_> = pos.iter().filter(|(p, role)| !p.is_empty() && (role == "annotation" || role == "argument" || (role == "body" && r.gen_bool(0.1)))).cloned().collect();
    if let Some((path, _)) = cands.choose(r) {
        *get_mut(&mut out, path) = json!({"k": "hole", "id": 1, "sh": 0});
    }
    out
}

// dead-code junk in an annotation: `if true then A else J` with ill-typed J (smallest shape in which an unchecked
// annotation is observable)
pub fn junk_annotation(r: &mut StdRng, t: &Value) -> Value {
    let mut out = t.clone();
    let mut pos = vec![];
    positions(t, vec![], "root", &mut pos);
    let cands: Vec<_> = pos.iter().filter(|(_, role)| role == "annotation").cloned().collect();
    if let Some((path, _)) = cands.choose(r) {
        let node = get_mut(&mut out, path);
        let a = node.clone();
        let junk = match r.gen_range(0..3) {
            0 => json!({"k": "bin", "op": "sum", "a": {"k": "true"}, "b": lit(1)}),
            1 => json!({"k": "app", "a": lit(3), "b": lit(4)}),
            _ => json!({"k": "if", "c": lit(0), "a": {"k": "int"}, "b": {"k": "bool"}}),
        };
        *node = if r.gen_bool(0.5) {
            json!({"k": "if", "c": {"k": "true"}, "a": a, "b": junk})
        } else {
            // ((x : J) => A) J'   -- the annotation computes to A but contains an ill-typed binder annotation
            json!({"k": "app", "a": {"k": "lam", "n": "j", "imp": false, "a": junk, "b": crate::c_gen::raise(&a)}, "b": lit(0)})
        };
    }
    out
}

// raise all free indices of a JSON term by one (the term is moved under one new binder) using the real shift
pub fn raise(v: &Value) -> Value {
    let t = tj::from_json(v);
    tj::tj_with(&crate::de_bruijn::unsigned_shift(&t, 0, 1), &mut tj::HoleIds::default(), false)
}

fn big_digits(r: &mut StdRng) -> String {
    let special = ["0", "1", "9999", "10000", "9223372036854775807", "9223372036854775808", "18446744073709551615", "18446744073709551616",
        "340282366920938463463374607431768211456", "99999999", "100000000"];
    if r.gen_bool(0.4) {
        special.choose(r).unwrap().to_string()
    } else {
        let n = r.gen_range(1..90);
        let mut s: String = (0..n).map(|_| char::from(b'0' + r.gen_range(0..10u8))).collect();
        if s.starts_with('0') && s.len() > 1 {
            s.replace_range(0..1, "7");
        }
        s
    }
}

pub fn bigint_program(r: &mut StdRng) -> String {
    let ops = ["+", "-", "*", "/", "<", "<=", "==", ">", ">="];
    let operand = |r: &mut StdRng| {
        let d = big_digits(r);
        if r.gen_bool(0.4) { format!("(-{d})") } else { d }
    };
    let a = operand(r);
    let b = if r.gen_bool(0.15) { a.clone() } else { operand(r) };
    let op = ops.choose(r).unwrap();
    match r.gen_range(0..4) {
        0 => format!("{a} {op} {b}"),
        1 => format!("x = {a}\ny = {b}\nx {op} y"),
        2 => format!("f = (p : int) => (q : int) => p {op} q\nf {a} {b}"),
        _ => format!("if {a} {} {b} then {a} {} {b} else {b} {} {a}", ["<", "<=", "==", ">", ">="].choose(r).unwrap(), ["+", "-", "*", "/"].choose(r).unwrap(), ["+", "-", "*", "/"].choose(r).unwrap()),
    }
}

pub fn recursion_program(r: &mut StdRng, maxn: u32) -> String {
    let n = r.gen_range(0..=maxn);
    match r.gen_range(0..6) {
        0 => format!("factorial : int -> int = (x : int) => if x == 0 then 1 else x * factorial (x - 1)\nfactorial {n}"),
        1 => {
            let n = n.min(15);
            format!("fib : int -> int = (n : int) => if n < 2 then n else fib (n - 1) + fib (n - 2)\nfib {n}")
        }
        2 => format!("even : int -> bool = (n : int) => if n == 0 then true else odd (n - 1)\nodd : int -> bool = (n : int) => if n == 0 then false else even (n - 1)\neven {n}"),
        3 => format!("sum : int -> int -> int = (n : int) => (acc : int) => if n <= 0 then acc else sum (n - 1) (acc + n)\nsum {n} 0"),
        4 => format!("pow : int -> int -> int = (b : int) => (e : int) => if e == 0 then 1 else b * pow b (e - 1)\npow (-3) {n} / pow 2 {n}"),
        _ => format!("twice = (f : int -> int) => (x : int) => f (f x)\ninc = (x : int) => x + {n}\ntwice (twice inc) 0 - {n}"),
    }
}

// gv parse-hosts <programs.jsonl> : the real parser's term for every program that parses and has no hole -> {"t": term}
pub fn parse_hosts(args: &[String]) {
    for l in crate::util::read_lines(&args[0]) {
        if let Ok(rec) = serde_json::from_str::<Value>(&l) {
            if let Some(t) = parse_to_json(rec["text"].as_str().unwrap_or("")) {
                if !c_pipe::has_hole(&t) {
                    println!("{}", json!({"t": t}));
                }
            }
        }
    }
}

// gv gen-programs <kind> <seed> <count>  -> stdout: one {"text":..,"origin":..} per line
pub fn main(args: &[String]) {
    let kind = args[0].as_str();
    let seed: u64 = args[1].parse().unwrap();
    let count: usize = args[2].parse().unwrap();
    let mut r = StdRng::seed_from_u64(seed);
    let progs: Vec<String> = corpus::programs().into_iter().filter(|p| !p.contains("exfalso") && !p.contains("t = int -> t")).collect();
    let parsed: Vec<Value> = progs.iter().filter_map(|p| parse_to_json(p)).collect();
    let out_cell = std::cell::RefCell::new(String::new());
    let emit = |text: String, origin: &str| {
        *out_cell.borrow_mut() += &format!("{}\n", json!({"text": text, "origin": origin}));
    };
    // a program built as a term: the text is its rendering, and the term travels with the event as `gen`, so that a program the
    // FRONT END rejects (definition order, scoping) can still be judged against the specification
    let emit_term = |t: Value, origin: &str| {
        *out_cell.borrow_mut() += &format!("{}\n", json!({"text": c_pipe::unparse(&t, 0), "origin": origin, "gen": t}));
    };
    match kind {
        "corpus" => {
            for p in &progs {
                emit(p.clone(), "corpus");
            }
        }
        "perturb" => {
            for i in 0..count {
                let base = parsed.choose(&mut r).unwrap();
                let t = perturb(&mut r, base);
                emit(c_pipe::unparse(&t, i % 4), "perturb");
            }
        }
        "punch" => {
            for i in 0..count {
                let base = parsed.choose(&mut r).unwrap();
                let mut t = punch(&mut r, base);
                if r.gen_bool(0.3) {
                    t = punch(&mut r, &t);
                }
                emit(c_pipe::unparse(&t, i % 4), "punch");
            }
        }
        "junk" => {
            for i in 0..count {
                let base = parsed.choose(&mut r).unwrap();
                let t = junk_annotation(&mut r, base);
                emit(c_pipe::unparse(&t, i % 4), "junk");
            }
        }
        "bigint" => {
            for _ in 0..count {
                emit(bigint_program(&mut r), "bigint");
            }
        }
        "recursion" => {
            let maxn: u32 = args.get(3).and_then(|s| s.parse().ok()).unwrap_or(12);
            for _ in 0..count {
                emit(recursion_program(&mut r, maxn), "recursion");
            }
        }
        "hopunch" => {
            // complete: every single-node replacement x every single punched position, on the small higher-order programs
            let mut n = 0;
            'outer: for src in corpus::HIGHER_ORDER {
                let Some(t) = parse_to_json(src) else { continue };
                let mut pos = vec![];
                positions(&t, vec![], "root", &mut pos);
                let repl = [json!({"k": "true"}), lit(1), json!({"k": "int"}), json!({"k": "bool"})];
                let mut variants: Vec<Value> = vec![t.clone()];
                for (path, _) in &pos {
                    if path.is_empty() {
                        continue;
                    }
                    for rv in &repl {
                        let mut v = t.clone();
                        *get_mut(&mut v, path) = rv.clone();
                        variants.push(v);
                    }
                }
                for v in &variants {
                    let mut vpos = vec![];
                    positions(v, vec![], "root", &mut vpos);
                    for (path, role) in &vpos {
                        let parent_is_pi = path.len() >= 1 && {
                            let mut pp = path.clone();
                            pp.pop();
                            let mut vv = v.clone();
                            get_mut(&mut vv, &pp)["k"] == "pi"
                        };
                        if path.is_empty() || !(role == "annotation" || role == "argument" || (role == "body" && parent_is_pi)) {
                            continue;
                        }
                        let mut h = v.clone();
                        *get_mut(&mut h, path) = json!({"k": "hole", "id": 1, "sh": 0});
                        emit(c_pipe::unparse(&h, n % 4), "hopunch");
                        n += 1;
                        if count > 0 && n >= count {
                            break 'outer;
                        }
                    }
                }
            }
        }
        "dependent" => {
            // conversion of STUCK terms under binders decides acceptance: f : p E1 -> int applied to x : p E2
            for _ in 0..count {
                emit(dependent_program(&mut r), "dependent");
            }
        }
        "typelevel" => {
            // a type computed by a type-level conditional on a comparison: the checker's normaliser and the evaluator
            // must agree on every comparison operator at and around the boundary
            let ops = ["<", "<=", "==", ">", ">="];
            let mut n = 0;
            'tl: for op in ops {
                for k in [0i64, 3] {
                    for a in [k - 1, k, k + 1] {
                        for vint in [true, false] {
                            for form in 0..3 {
                                let arg = if a < 0 { format!("(-{})", -a) } else { a.to_string() };
                                let v = if vint { "5" } else { "true" };
                                let usex = if vint { "x + 1" } else { "if x then 1 else 2" };
                                let text = match form {
                                    0 => format!("t = (n : int) => if n {op} {k} then int else bool\nx : t {arg} = {v}\n{usex}"),
                                    1 => format!("t : (int -> type) = (n : int) => if {k} {op} n then int else bool\nf = (x : t {arg}) => {usex}\nf {v}"),
                                    _ => format!("coerce = (n : int) => (x : if n {op} {k} then int else bool) => ((y : if n {op} {k} then int else bool) => y) x\n(w : (if {arg} {op} {k} then int else bool) = coerce {arg} {v}; w)"),
                                };
                                emit(text, "typelevel");
                                n += 1;
                                if count > 0 && n >= count {
                                    break 'tl;
                                }
                            }
                        }
                    }
                }
            }
        }
        "tokmut" => {
            // every single-token deletion, and every substitution / insertion of a few structural tokens, at every position of a
            // basis of sentences in which each construct occurs in each annotation / operand position (conditionals and groups
            // inside domains and annotations in particular: the places where the parser recovers from errors)
            let basis = [
                "(x : if true then int else bool) => x", "{x : if true then int else bool} => 1", "(x : (int)) => x", "(x : (a = int; a)) => x",
                "y : (if true then int else bool) = 1; y", "y : (a = int; a) = 1; y", "(x : if true then int else bool) -> int", "{x : (int)} -> int",
                "(if true then int else bool) -> int", "f (if true then 1 else 2) (a = 1; a)", "if (if true then true else false) then (1) else (a = 2; a)",
                "(x : int) => (y : bool) => if y then x else (x + 1) * 2", "a = 1; b : int = a + 1; c = (d = 2; d); a + b + c",
                "f = (x : int) => x; g = {t : type} => (v : t) => v; g (f 1)", "1 + (2 - 3) * (4 / (5)) < 6", "- (1) - - 2", "int -> (bool -> type) -> type",
                "(x : int -> int) => x (x 1)", "a : int -> int = (x : int) => x; a", "(((1)))", "_ = 1; x = _; x",
            ];
            let subst = [")", "(", "then", "else", "=>", ";", "x", ":", "=", "}", "->"];
            let mut all = vec![];
            for b in basis {
                let src: &'static str = crate::tj::leak(b);
                let Ok(toks) = crate::tokenizer::tokenize(None, src) else { continue };
                let ranges: Vec<(usize, usize)> = toks.iter().map(|t| (t.source_range.start, t.source_range.end)).collect();
                let piece = |i: usize| &b[ranges[i].0..ranges[i].1];
                let join = |parts: Vec<String>| parts.join(" ");
                for i in 0..ranges.len() {
                    all.push(join((0..ranges.len()).filter(|j| *j != i).map(|j| piece(j).to_string()).collect()));
                    for s in subst {
                        if piece(i) != s {
                            all.push(join((0..ranges.len()).map(|j| if j == i { s.to_string() } else { piece(j).to_string() }).collect()));
                        }
                        let mut parts: Vec<String> = (0..ranges.len()).map(|j| piece(j).to_string()).collect();
                        parts.insert(i, s.to_string());
                        all.push(join(parts));
                    }
                }
            }
            let step = if count == 0 || count >= all.len() { 1 } else { all.len() / count };
            for t in all.into_iter().step_by(step.max(1)) {
                emit(t, "tokmut");
            }
        }
        "holeparam" => {
            // a function over two or three TYPE parameters with one value parameter whose domain is omitted (`_`) at every
            // position; the body forces the hole to be one of the type parameters; the function is applied to ground types and
            // literals and the result is used at the right and at a wrong ground type.  The hole is solved by a variable bound
            // further out and then travels through substitutions under the later binders.
            let mut all = vec![];
            for ntypes in 2..=3usize {
                for k in 0..ntypes {                      // the hole must become T{k}
                    for xpos in (k + 1)..=ntypes {        // x sits after T{k}, before/after the other type parameters
                        for combo in 0..(1usize << ntypes) {
                            let ground: Vec<&str> = (0..ntypes).map(|i| if combo >> i & 1 == 0 { "int" } else { "bool" }).collect();
                            let lit = |g: &str, alt: bool| if g == "int" { if alt { "4" } else { "3" } } else if alt { "false" } else { "true" };
                            let mut params = vec![];
                            let mut args = vec![];
                            for i in 0..=ntypes {
                                if i == xpos {
                                    params.push("(x : _)".to_string());
                                    args.push(lit(ground[k], false).to_string());
                                }
                                if i < ntypes {
                                    params.push(format!("(t{i} : type)"));
                                    args.push(ground[i].to_string());
                                }
                            }
                            params.push(format!("(y : t{k})"));
                            args.push(lit(ground[k], true).to_string());
                            let f = format!("f = {} => if true then x else y", params.join(" => "));
                            let call = format!("f {}", args.join(" "));
                            let other = if ground[k] == "int" { "bool" } else { "int" };
                            all.push(format!("{f}\nr : {} = {call}\nr", ground[k]));
                            all.push(format!("{f}\nr : {other} = {call}\nr"));
                            if ground[k] == "bool" {
                                all.push(format!("{f}\nif {call} then 1 else 2"));
                            } else {
                                all.push(format!("{f}\n{call} + 1"));
                                all.push(format!("{f}\nif {call} then 1 else 2"));
                            }
                        }
                    }
                }
            }
            for t in all.into_iter().take(if count == 0 { usize::MAX } else { count }) {
                emit(t, "holeparam");
            }
        }
        "lettypes" => {
            // annotations that are definition groups: every pair of a small set of such types, as the declared type of a value,
            // as a parameter type against an argument, and through an alias; accepted exactly when the two types are the same
            let types: [(&str, &str); 6] = [
                ("(t = int; t)", "int"), ("(t = int; u = bool; u)", "bool"), ("(t = int; u = bool; t)", "int"), ("(t = bool; t)", "bool"),
                ("(t = int; u = int; u)", "int"), ("(t : type = bool; u : type = int; t)", "bool"),
            ];
            let val = |g: &str| if g == "int" { "3" } else { "true" };
            let mut all = vec![];
            // result types of NESTED groups that mention a member defined by an outer definition
            for (outer, names) in [("s = int; t = bool", ["s", "t"]), ("t = bool; s = int", ["s", "t"]), ("s = int; t = bool; u = int", ["t", "u"])] {
                for x in names {
                    let lit = if x == "t" { "true" } else { "3" };
                    let other = if x == "t" { "s" } else { "t" };
                    all.push(format!("{outer}; r = (a = {x}; v : a = {lit}; v); r"));
                    all.push(format!("{outer}; (a = {x}; v : a = {lit}; v)"));
                    all.push(format!("{outer}; r = (a = {x}; b = {other}; v : a = {lit}; v); r"));
                    all.push(format!("{outer}; r = (b = {other}; a = {x}; v : a = {lit}; v); w : {x} = r; w"));
                    all.push(format!("{outer}; r = (b = {other}; a = {x}; v : a = {lit}; v); w : {other} = r; w"));
                }
            }
            for (a, ga) in types {
                for (b, gb) in types {
                    let use_x = if gb == "int" { "x + 1" } else { "if x then 1 else 2" };
                    all.push(format!("y : {a} = {}; z : {b} = y; z", val(ga)));
                    all.push(format!("g : ({a} -> int) = (x : {b}) => {use_x}; g {}", val(ga)));
                    all.push(format!("g = (x : {a}) => x; w : {b} = g {}; w", val(ga)));
                    all.push(format!("s : type = {a}; y : s = {}; z : {b} = y; z", val(ga)));
                }
            }
            for t in all.into_iter().take(if count == 0 { usize::MAX } else { count }) {
                emit(t, "lettypes");
            }
        }
        "chains" => {
            // arithmetic trees over + - * / with 3..7 literal leaves (divisors are non-zero literals), rendered with the parentheses
            // the tree needs: every way a grouped operand can sit inside a chain of the same or another family
            fn tree(r: &mut StdRng, leaves: usize) -> Value {
                if leaves == 1 {
                    return lit(r.gen_range(0..10));
                }
                let left = r.gen_range(1..leaves);
                let op = ["sum", "diff", "prod", "quot", "diff", "sum"][r.gen_range(0..6)];
                let a = tree(r, left);
                let b = if op == "quot" && leaves - left == 1 { lit(r.gen_range(1..10)) } else if op == "quot" { json!({"k": "bin", "op": "sum", "a": tree(r, leaves - left), "b": lit(100)}) } else { tree(r, leaves - left) };
                json!({"k": "bin", "op": op, "a": a, "b": b})
            }
            for i in 0..count {
                let n = r.gen_range(3..8);
                let t = tree(&mut r, n);
                emit(c_pipe::unparse(&t, i % 4), "chains");
            }
        }
        "groups" => {
            // definition groups built to be accepted and to terminate: functions calling later and earlier siblings, functions
            // recursive on a decreasing argument that also call a sibling, computed definitions reached through functions, local
            // groups (one or two definitions) inside function bodies, the result taken under further binders
            // systematic part: a recursive function that calls a sibling, in every order of the group, entered 0..3 times
            let fbodies = [
                "if n <= 0 then 0 else f (n - 1) + g n",
                "if n <= 0 then g 0 else f (n - 1)",
                "if n <= 0 then 0 else (if p n then f (n - 1) else g n)",
            ];
            let mut sys = vec![];
            for (bi, fb) in fbodies.iter().enumerate() {
                let mut defs = vec![format!("f : (int -> int) = (n : int) => {fb}"), "g : (int -> int) = (m : int) => m * 2 + 1".to_string()];
                if bi == 2 {
                    defs.push("p : (int -> bool) = (k : int) => k > 1".to_string());
                } else {
                    defs.push("c : int = 2 + 2".to_string());
                }
                let orders: [[usize; 3]; 6] = [[0, 1, 2], [0, 2, 1], [1, 0, 2], [1, 2, 0], [2, 0, 1], [2, 1, 0]];
                for o in orders {
                    for arg in 0..4 {
                        sys.push(format!("{}; {}; {}; f {arg}", defs[o[0]], defs[o[1]], defs[o[2]]));
                    }
                }
            }
            let nsys = sys.len().min(count / 2);
            for t in sys.into_iter().take(nsys) {
                emit(t, "groups");
            }
            for _ in nsys..count {
                let nf = r.gen_range(2..5usize);
                let nc = r.gen_range(0..3usize);
                // rank: a function calls only functions of higher rank (no cycles); textual order is independent of rank
                let mut rank: Vec<usize> = (0..nf).collect();
                rank.shuffle(&mut r);
                let with_pred = r.gen_bool(0.4);
                // computed definitions a function depends on (transitively)
                let mut deps: Vec<std::collections::BTreeSet<usize>> = vec![Default::default(); nf];
                let mut body: Vec<String> = vec![String::new(); nf];
                let mut by_rank: Vec<usize> = (0..nf).collect();
                by_rank.sort_by_key(|i| std::cmp::Reverse(rank[*i]));
                for &i in &by_rank {
                    let higher: Vec<usize> = (0..nf).filter(|j| rank[*j] > rank[i]).collect();
                    let k = r.gen_range(1..5);
                    let callee = if higher.is_empty() { None } else { Some(higher[r.gen_range(0..higher.len())]) };
                    let choice = r.gen_range(0..7);
                    let (b, d): (String, Vec<usize>) = match (choice, callee) {
                        (0, Some(j)) => (format!("f{j} x + {k}"), vec![j]),
                        (1, Some(j)) => (format!("if x <= 0 then {k} else f{i} (x - 1) + f{j} 0"), vec![j]),
                        (2, Some(j)) if with_pred => (format!("if x <= 0 then 0 else (if p 0 then f{i} (x - 1) + f{j} 1 else {k})"), vec![j]),
                        (3, Some(j)) => (format!("(a : int = x + {k}; f{j} a)"), vec![j]),
                        (4, Some(j)) => (format!("(a : int = x + {k}; u : int = 0; f{j} a + u)"), vec![j]),
                        (5, _) if nc > 0 => { let m = r.gen_range(0..nc); deps[i].insert(m); (format!("x * {k} + c{m}"), vec![]) }
                        (6, Some(j)) => (format!("if x <= 0 then f{j} x else f{i} (x - 1)"), vec![j]),
                        _ => (format!("x * {k} + {}", r.gen_range(0..4)), vec![]),
                    };
                    for j in d {
                        let dj = deps[j].clone();
                        deps[i].extend(dj);
                    }
                    body[i] = b;
                }
                // computed definitions: c_m may use c_(m-1) and functions whose dependencies are all earlier
                let mut cdefs = vec![];
                for m in 0..nc {
                    let ok: Vec<usize> = (0..nf).filter(|i| deps[*i].iter().all(|d| *d < m)).collect();
                    let e = match (r.gen_range(0..3), ok.is_empty(), m) {
                        (0, false, _) => format!("f{} {}", ok[r.gen_range(0..ok.len())], r.gen_range(0..3)),
                        (1, _, 1..) => format!("c{} + {}", m - 1, r.gen_range(1..4)),
                        _ => format!("{} + {}", r.gen_range(0..5), r.gen_range(0..5)),
                    };
                    cdefs.push(format!("c{m} : int = {e}"));
                }
                // textual order: functions anywhere, computed definitions in their order
                let mut slots: Vec<String> = (0..nf).map(|i| format!("f{i} : (int -> int) = (x : int) => {}", body[i])).collect();
                if with_pred {
                    slots.push(format!("p : (int -> bool) = (m : int) => m == {}", r.gen_range(0..2)));
                }
                slots.shuffle(&mut r);
                for c in cdefs {
                    // insert keeping the relative order of the computed definitions: after the previous one
                    let lo = slots.iter().rposition(|s| s.starts_with('c')).map_or(0, |p| p + 1);
                    let at = r.gen_range(lo..=slots.len());
                    slots.insert(at, c);
                }
                let top = r.gen_range(0..nf);
                let arg = r.gen_range(0..4);
                let main = match r.gen_range(0..7) {
                    0 => format!("f{top} {arg}"),
                    1 => format!("((q : int) => f{top} q) {arg}"),
                    2 => format!("((q : int) => (w : int = q + 1; f{top} w)) {arg}"),
                    // results that stay under further binders (hosts for checking under a context)
                    4 => format!("(q : int) => f{top} q"),
                    5 => format!("(q : int) => (w : int = q + 1; f{top} w)"),
                    6 => format!("(q : int) => (r : int) => f{top} q + f{} r", (top + 1) % nf),
                    _ if nc > 0 => format!("f{top} {arg} + c{}", nc - 1),
                    _ => format!("f{top} (f{top} {arg})"),
                };
                let sep = if r.gen_bool(0.5) { "; " } else { "\n" };
                emit(format!("{}{sep}{main}", slots.join(sep)), "groups");
            }
        }
        "deforder3" => {
            // every group of three definitions (a function or a computed integer each, each referring to at most one other member:
            // functions use an integer or call a function, integers use an integer or call a function) in every order, with two
            // bodies, as the outermost group and as a local group -- built as TERMS, so that the verdict of the definition-order
            // check is judged in both directions (wrongly rejected: C05; wrongly accepted and stuck: C01)
            let int = || json!({"k": "int"});
            let lit = |n: u64| json!({"k": "lit", "v": {"s": if n == 0 { 0 } else { 1 }, "m": if n == 0 { json!([]) } else { json!([n]) }}});
            let var = |i: usize| json!({"k": "var", "i": i, "n": "v"});
            let bin = |op: &str, a: Value, b: Value| json!({"k": "bin", "op": op, "a": a, "b": b});
            let app = |a: Value, b: Value| json!({"k": "app", "a": a, "b": b});
            let arrow = || json!({"k": "pi", "n": "_", "imp": false, "a": {"k": "int"}, "b": {"k": "int"}});
            let lam = |b: Value| json!({"k": "lam", "n": "x", "imp": false, "a": {"k": "int"}, "b": b});
            let n = 3usize;
            let mut all = vec![];
            // per definition: (is_fun, target) with target in 0..=n (n = none); index of member j inside the group: n-1-j
            let choices: Vec<(bool, usize)> = (0..2).flat_map(|f| (0..=n).map(move |t| (f == 1, t))).collect();
            for c0 in &choices { for c1 in &choices { for c2 in &choices {
                let cs = [*c0, *c1, *c2];
                if (0..n).any(|i| cs[i].1 == i) { continue; }        // self reference: recursion families cover it
                let defs: Vec<Value> = (0..n).map(|i| {
                    let (is_fun, t) = cs[i];
                    let d = if is_fun {
                        // inside the function the members are one binder further away
                        let m = |j: usize| var(n - 1 - j + 1);
                        let body = if t == n { bin("sum", var(0), lit(i as u64 + 1)) } else if cs[t].0 { bin("sum", app(m(t), var(0)), lit(1)) } else { bin("sum", m(t), var(0)) };
                        lam(body)
                    } else {
                        let m = |j: usize| var(n - 1 - j);
                        if t == n { bin("sum", lit(i as u64 + 1), lit(1)) } else if cs[t].0 { app(m(t), lit(2)) } else { bin("sum", m(t), lit(1)) }
                    };
                    json!({"n": "d", "ann": if is_fun { arrow() } else { int() }, "def": d})
                }).collect();
                for bodyk in 0..n {
                    let b = if cs[bodyk].0 { app(var(n - 1 - bodyk), lit(3)) } else { var(n - 1 - bodyk) };
                    all.push(json!({"k": "let", "defs": defs, "b": b}));
                }
            }}}
            let total = all.len();
            let keep = if count == 0 { total } else { count.min(total) };
            let stride = (total / keep).max(1);
            for (i, g) in all.into_iter().enumerate() {
                if i % stride != 0 { continue; }
                if i % (7 * stride) == 0 {
                    // the same group as a local group in a function body
                    let local = json!({"k": "app", "a": {"k": "lam", "n": "n", "imp": false, "a": {"k": "int"}, "b": shift_json(&g, 0, 1)}, "b": lit(1)});
                    emit_term(local, "deforder3");
                }
                emit_term(g, "deforder3");
            }
        }
        "groundindex2" => {
            // conversion of NEUTRAL terms must go below the head: a type family with two indices (the first convertible only by
            // computing), a stuck conditional whose condition needs computing below its own head, a stuck negation / operator
            // against its operand.  Accepted iff the indices agree.
            let small = |r: &mut StdRng| { let v: i64 = r.gen_range(0..8); v.to_string() };
            for i in 0..count {
                let (a, b) = (small(&mut r), small(&mut r));
                let o = ["+", "-", "*"][r.gen_range(0..3)];
                let val: i64 = { let (x, y): (i64, i64) = (a.parse().unwrap(), b.parse().unwrap()); match o { "+" => x + y, "-" => x - y, _ => x * y } };
                let right = r.gen_bool(0.6);
                let c = if right { val } else { val + r.gen_range(1..3) };
                let c = if c < 0 { format!("(0 - {})", -c) } else { c.to_string() };
                let k2 = small(&mut r);
                let text = match i % 8 {
                    0 => format!("(p : int -> int -> type) => (f : p ({a} {o} {b}) {k2} -> int) => (x : p {c} {k2}) => f x"),
                    1 => format!("(p : int -> int -> type) => (f : p {k2} ({a} {o} {b}) -> int) => (x : p {k2} {c}) => f x"),
                    2 => format!("(p : int -> bool -> int -> type) => (f : p ({a} {o} {b}) true {k2} -> int) => (x : p {c} true {k2}) => f x"),
                    3 => format!("(g : int -> bool) => (p : int -> type) => (f : p (if g ({a} {o} {b}) then 1 else 2) -> int) => (x : p (if g {c} then 1 else 2)) => f x"),
                    4 => format!("(g : int -> int) => (p : int -> type) => (f : p (g ({a} {o} {b}) + 1) -> int) => (x : p (g {c} + 1)) => f x"),
                    5 => { let (l, rr) = if right { ("- n", "- n") } else if r.gen_bool(0.5) { ("- n", "n") } else { ("n", "- n") };
                           format!("(n : int) => (p : int -> type) => (f : p ({l}) -> int) => (x : p ({rr})) => f x") }
                    6 => { let ops = ["+", "-", "*", "/"]; let o1 = ops[r.gen_range(0..4)]; let o2 = if right { o1 } else { ops[r.gen_range(0..4)] };
                           let (l, rr) = if right || o1 != o2 { (format!("n {o1} m"), format!("n {o2} m")) } else { (format!("n {o1} m"), format!("m {o1} n")) };
                           format!("(n : int) => (m : int) => (p : int -> type) => (f : p ({l}) -> int) => (x : p ({rr})) => f x") }
                    _ => format!("(h : int -> int -> int) => (p : int -> type) => (f : p (h ({a} {o} {b}) {k2}) -> int) => (x : p (h {c} {k2})) => f x"),
                };
                emit(text, "groundindex2");
            }
        }
        "holescope" => {
            // an omitted parameter domain (a hole written under the type parameters a, b) that is used under FURTHER binders --
            // parameters and local definitions, among them definitions of ground types -- before and after the use that solves it.
            // The hole is solved late, by a variable bound outside, and is read at depths where the same index means something else.
            let binders = ["(y@ : a) => ", "(y@ : b) => ", "t@ = int; ", "t@ = bool; ", "t@ = a; ", "u@ = 3; ", "(y@ : int) => "];
            let forced = ["a", "b", "int", "t"];
            let mut all = vec![];
            for b1 in 0..=binders.len() { for b2 in 0..=binders.len() {
                if b1 == binders.len() && b2 != binders.len() { continue; }
                let picked: Vec<String> = [b1, b2].iter().enumerate().filter(|(_, i)| **i < binders.len()).map(|(k, i)| binders[*i].replace('@', &(k + 1).to_string())).collect();
                let bs: String = picked.concat();
                // the innermost local definition named t*, if any
                let tname = picked.iter().rev().find(|b| b.starts_with('t')).map(|b| b[..2].to_string());
                for fz in forced {
                    let fz = if fz == "t" { match &tname { Some(t) => t.clone(), None => continue } } else { fz.to_string() };
                    for shape in 0..9 {
                        let body = match shape {
                            0 => format!("if true then x else ((z : {fz}) => z) x"),
                            // the branches disagree unless the hole's solution is (mis)read as a ground type
                            3 => format!("if true then x else ((z : {fz}) => 3) x"),
                            4 => format!("if true then ((z : {fz}) => true) x else x"),
                            5 => format!("((z : {fz}) => (w : int) => w) x x"),
                            // the unsolved hole is captured below a binder inside a definition, solved by a sibling, then read back
                            6 => format!("f = (y : int) => x; g = ((z : {fz}) => z) x; f 3"),
                            7 => format!("f = (y : int) => (y2 : bool) => x; g = ((z : {fz}) => z) x; h = f 3; h true"),
                            // the first branch solves the hole and fixes the result type; the second reads the solved hole back
                            8 => format!("if false then ((z : {fz}) => 3) x else x"),
                            1 => format!("((z : {fz}) => (w : a) => z) x x"),
                            _ => format!("((k : {fz} -> {fz}) => k x) ((z : {fz}) => x)"),
                        };
                        all.push(format!("(a : type) => (b : type) => x => {bs}{body}"));
                        all.push(format!("(a : type) => x => (b : type) => {bs}{body}"));
                        // applied, and the result used at a ground type: if the result's type is misread the program runs into a
                        // value of the wrong kind
                        if shape == 0 || shape == 3 || shape == 6 || shape == 8 {
                            // arguments for the further parameters (a := bool, b := int in the first form; a := int, b := bool in the second)
                            let args = |aval: &str, bval: &str| -> String {
                                picked.iter().filter(|b| b.contains("=>")).map(|b| if b.contains(": a)") { format!(" {aval}") } else if b.contains(": b)") { format!(" {bval}") } else { " 5".to_string() }).collect()
                            };
                            all.push(format!("((a : type) => (b : type) => x => {bs}{body}) bool int true{} + 1", args("false", "7")));
                            all.push(format!("if ((a : type) => x => (b : type) => {bs}{body}) int 3 bool{} then 1 else 2", args("4", "true")));
                        }
                    }
                }
            }}
            let total = all.len();
            let keep = if count == 0 { total } else { count.min(total) };
            let stride = (total / keep).max(1);
            for (i, t) in all.into_iter().enumerate() {
                if i % stride == 0 { emit(t, "holescope"); }
            }
        }
        "nestgroup" | "nestpick" => {
            // a group of type aliases (to a ground type, to a type parameter bound OUTSIDE the group, to another member) in every
            // order, under one or two outer parameters, used below zero to two further parameters: as a parameter's domain, in the
            // result type of the whole group, applied, and at a wrong type.  The group's own type mentions members other than the
            // first, members that refer to the outside, and is read back at several depths.
            let members = [("g1", "int"), ("g2", "A"), ("g3", "g1"), ("g4", "g2")];
            let perms: [[usize; 3]; 6] = [[0, 1, 2], [0, 2, 1], [1, 0, 2], [1, 2, 0], [2, 0, 1], [2, 1, 0]];
            let mut all = vec![];
            for trio in [[0usize, 1, 2], [0, 1, 3], [1, 0, 3]] {
                for perm in perms {
                    let defs: Vec<String> = perm.iter().map(|i| { let (n, d) = members[trio[*i]]; format!("{n} : type = {d}") }).collect();
                    let names: Vec<&str> = trio.iter().map(|i| members[*i].0).collect();
                    for outer in ["(A : type) => (v : A) => ", "(A : type) => (B : type) => (v : A) => "] {
                        for inner in ["", "(p : int) => ", "(p : int) => (q : B0) => "] {
                            let inner = inner.replace("B0", if outer.contains("B :") { "B" } else { "A" });
                            for nm in &names {
                                let ground = *nm == "g1" || *nm == "g3";
                                let mut bodies = vec![format!("(z : {nm}) => z"), format!("((z : {nm}) => z) {}", if ground { "3" } else { "v" }), format!("((z : {nm}) => (w : {nm}) => z) {}", if ground { "3" } else { "v" })];
                                if ground { bodies.push(format!("((z : {nm}) => z + 1) 3")); bodies.push(format!("((z : {nm}) => z) v")); } else { bodies.push(format!("((z : {nm}) => z) 3")); }
                                for b in bodies {
                                    all.push(format!("{outer}({}; {inner}{b})", defs.join("; ")));
                                }
                            }
                        }
                    }
                }
            }
            // groups of one and two members (a rewrite that adds a definition turns them into the larger ones), also bound to a name
            // and applied: the type computed for the group is then USED
            let mut small: Vec<String> = vec![];
            for outer in ["(A : type) => (v : A) => ", "(A : type) => (B : type) => (v : A) => ", "(B : type) => (A : type) => (v : A) => "] {
                for defs in ["g2 : type = A", "g1 : type = int; g2 : type = A", "g2 : type = A; g1 : type = int", "g2 : type = A; g4 : type = g2"] {
                    for b in ["(z : g2) => z", "((z : g2) => z) v", "(p : int) => ((z : g2) => z) v", "((z : g2) => (w : g2) => z) v"] {
                        small.push(format!("{outer}({defs}; {b})"));
                        // applied directly (no name, so no placeholder for the name's type: usable as a host for rewrites)
                        small.push(format!("({outer}({defs}; {b})) {}", if outer.starts_with("(B") { "bool int 3" } else if outer.contains("B :") { "int bool 3" } else { "int 3" }));
                        small.push(format!("pick = {outer}({defs}; {b})\n{}", if outer.starts_with("(B") { "pick bool int 3" } else if outer.contains("B :") { "pick int bool 3" } else { "pick int 3" }));
                        small.push(format!("pick = {outer}({defs}; {b})\n{}", if outer.starts_with("(B") { "pick int bool true" } else if outer.contains("B :") { "pick bool int true" } else { "pick bool true" }));
                    }
                }
            }
            for (tyvars, args) in [("(A : type) => (B : type) => ", "bool int"), ("(B : type) => (A : type) => ", "int bool")] {
                for defs in ["g2 : type = B", "g1 : type = int; g2 : type = B", "g2 : type = B; g1 : type = int", "g2 : type = B; g4 : type = g2"] {
                    small.push(format!("({tyvars}({defs}; (z : g2) => z)) {args} 3 + 1"));
                    small.push(format!("({tyvars}({defs}; (z : g2) => (w : g2) => z + w)) {args} 3 4"));
                }
            }
            if kind == "nestpick" { all.clear(); }
            all.extend(small);
            let total = all.len();
            let keep = if count == 0 { total } else { count.min(total) };
            let stride = (total / keep).max(1);
            for (i, t) in all.into_iter().enumerate() {
                if i % stride == 0 { emit(t, kind); }
            }
        }
        "typerec" => {
            // a RECURSIVE type-level function in a group, whose base case is another member of the group (before or after it), next
            // to filler members; a member is annotated with an application of it; the group is the argument of a function that
            // expects the right or a wrong ground type.  Unfolding the recursive member at type level must keep the references to
            // its siblings intact at every position of the group.
            let mut all = vec![];
            let others: [(&str, &str); 3] = [("b", "bool"), ("c", "int"), ("w", "5")];
            for npos in 0..4usize {                       // position of `pick` among the other three members
                for base in ["b", "c"] {
                    for depth in [0, 1, 2] {
                        for order in [[0usize, 1, 2], [1, 0, 2], [2, 1, 0], [0, 2, 1]] {
                            let mut defs: Vec<String> = order.iter().map(|i| format!("{} = {}", others[*i].0, others[*i].1)).collect();
                            defs.insert(npos.min(defs.len()), format!("pick : (int -> type) = (n : int) => if n == 0 then {base} else pick (n - 1)"));
                            let (val, ty) = if base == "b" { ("true", "bool") } else { ("7", "int") };
                            let group = format!("({}; y : pick {depth} = {val}; y)", defs.join("; "));
                            all.push(format!("g = (z : {ty}) => 1\ng {group}"));
                            all.push(format!("g = (z : {}) => 1\ng {group}", if ty == "bool" { "int" } else { "bool" }));
                            all.push(format!("{}; y : pick {depth} = {}; y", defs.join("; "), if base == "b" { "3" } else { "false" }));
                        }
                    }
                }
            }
            let total = all.len();
            let keep = if count == 0 { total } else { count.min(total) };
            let stride = (total / keep).max(1);
            for (i, t) in all.into_iter().enumerate() {
                if i % stride == 0 { emit(t, "typerec"); }
            }
        }
        "holedef" => {
            // a definition that is a bare placeholder (filled in by the way it is used), among computed definitions and functions,
            // at every position of the group: the elaborated group holds a solved hole as a definition, and evaluation has to
            // treat it like any other definition
            let defs = ["n = 1 + 2", "t = _", "id = (a : type) => (x : a) => x", "m = 4 * 5"];
            let bodies = ["id t n + 1", "id t m", "id t n + id t m", "((y : t) => y + 1) n"];
            let mut all = vec![];
            let idx = [0usize, 1, 2, 3];
            for a in idx { for b in idx { for c2 in idx { for d in idx {
                let p = [a, b, c2, d];
                if (0..4).any(|i| (0..i).any(|j| p[i] == p[j])) { continue; }
                for body in bodies {
                    all.push(format!("{}\n{body}", p.iter().map(|i| defs[*i]).collect::<Vec<_>>().join("\n")));
                }
                // three definitions: without the second computed one
                if d == 3 { all.push(format!("{}\n{}", p[..3].iter().map(|i| defs[*i]).collect::<Vec<_>>().join("\n"), bodies[0])); }
            }}}}
            let total = all.len();
            let keep = if count == 0 { total } else { count.min(total) };
            let stride = (total / keep).max(1);
            for (i, t) in all.into_iter().enumerate() {
                if i % stride == 0 { emit(t, "holedef"); }
            }
        }
        "groundindex" => {
            // conversion must COMPUTE: f : p (E) -> int applied to x : p (c) with E closed arithmetic and c a literal; accepted iff E
            // evaluates to c (every operator of the normaliser, negative operands, division toward zero, comparisons)
            let aops = ["+", "-", "*", "/"];
            let cops = ["<", "<=", "==", ">", ">="];
            for _ in 0..count {
                let small = |r: &mut StdRng| { let v: i64 = r.gen_range(-7..8); if v < 0 { format!("(0 - {})", -v) } else { v.to_string() } };
                if r.gen_bool(0.7) {
                    let (a, b, c2) = (small(&mut r), small(&mut r), small(&mut r));
                    let (o1, o2) = (aops[r.gen_range(0..4)], aops[r.gen_range(0..4)]);
                    let e = match r.gen_range(0..3) { 0 => format!("{a} {o1} {b}"), 1 => format!("({a} {o1} {b}) {o2} {c2}"), _ => format!("- ({a} {o1} {b})") };
                    let guess: i64 = r.gen_range(-12..13);
                    let lit_ = if guess < 0 { format!("(0 - {})", -guess) } else { guess.to_string() };
                    emit(format!("(p : int -> type) => (f : p ({e}) -> int) => (x : p ({lit_})) => f x"), "groundindex");
                } else {
                    let (a, b) = (small(&mut r), small(&mut r));
                    let o = cops[r.gen_range(0..5)];
                    let guess = if r.gen_bool(0.5) { "true" } else { "false" };
                    emit(format!("(q : bool -> type) => (f : q ({a} {o} {b}) -> int) => (x : q {guess}) => f x"), "groundindex");
                }
            }
        }
        "crossop" => {
            // two type-level conditionals that differ only in the comparison operator: convertible only if the checker confuses them
            let ops = ["<", "<=", "==", ">", ">="];
            let holds = |a: i64, op: &str, k: i64| match op { "<" => a < k, "<=" => a <= k, "==" => a == k, ">" => a > k, _ => a >= k };
            let mut n = 0;
            'co: for op1 in ops {
                for op2 in ops {
                    if op1 == op2 {
                        continue;
                    }
                    for a in [-1i64, 0, 1] {
                        let arg = if a < 0 { format!("(-{})", -a) } else { a.to_string() };
                        let v = if holds(a, op1, 0) { "5" } else { "true" };
                        let usew = if holds(a, op2, 0) { "w + 1" } else { "if w then 1 else 2" };
                        emit(format!("coerce = (n : int) => (x : if n {op1} 0 then int else bool) => ((y : if n {op2} 0 then int else bool) => y) x\n(w = coerce {arg} {v}; {usew})"), "crossop");
                        n += 1;
                        if count > 0 && n >= count {
                            break 'co;
                        }
                    }
                }
            }
        }
        "deforder" => {
            // groups of 3..5 definitions with random dependencies between non-values (ints) and function values; kinds are
            // decided first so that most groups are well typed and the definition-order rule decides acceptance
            for _ in 0..count {
                let n = r.gen_range(3..6);
                let is_fun: Vec<bool> = (0..n).map(|_| r.gen_bool(0.45)).collect();
                let ints: Vec<usize> = (0..n).filter(|i| !is_fun[*i]).collect();
                let funs: Vec<usize> = (0..n).filter(|i| is_fun[*i]).collect();
                let mut defs = vec![];
                for i in 0..n {
                    // mostly backward references, so that a fair share of the groups is legal
                    let pick = |r: &mut StdRng, pool: &Vec<usize>| -> Option<usize> {
                        if pool.is_empty() { return None; }
                        let back: Vec<usize> = pool.iter().copied().filter(|j| *j < i).collect();
                        if !back.is_empty() && r.gen_bool(0.6) { Some(back[r.gen_range(0..back.len())]) } else { Some(pool[r.gen_range(0..pool.len())]) }
                    };
                    let d = if is_fun[i] {
                        match (r.gen_range(0..3), pick(&mut r, &ints), pick(&mut r, &funs)) {
                            (0, Some(j), _) => format!("d{i} : (int -> int) = (x : int) => d{j} + x"),
                            (1, Some(j), Some(k)) => format!("d{i} : (int -> int) = (x : int) => if x <= 0 then d{j} else d{k} (x - 1)"),
                            (_, _, Some(k)) if k != i => format!("d{i} : (int -> int) = (x : int) => d{k} x + 1"),
                            _ => format!("d{i} : (int -> int) = (x : int) => x + {i}"),
                        }
                    } else {
                        match (r.gen_range(0..4), pick(&mut r, &ints), pick(&mut r, &funs)) {
                            (0, _, _) => format!("d{i} : int = {}", r.gen_range(0..9)),
                            (1, Some(j), _) if j != i => format!("d{i} : int = d{j} + 1"),
                            (2, _, Some(k)) => format!("d{i} : int = d{k} {}", r.gen_range(0..3)),
                            (3, Some(j), Some(k)) if j != i => format!("d{i} : int = (if d{j} < 3 then d{k} 1 else 2) * 2"),
                            _ => format!("d{i} : int = {} + {}", r.gen_range(0..9), r.gen_range(0..9)),
                        }
                    };
                    defs.push(d);
                }
                let body = match (ints.first(), funs.first()) {
                    (Some(j), _) if r.gen_bool(0.6) => format!("d{j}"),
                    (_, Some(k)) => format!("d{k} 2"),
                    (Some(j), _) => format!("d{j}"),
                    _ => "0".to_string(),
                };
                let sep = if r.gen_bool(0.5) { "; " } else { "\n" };
                match r.gen_range(0..10) {
                    // the same group as a LOCAL group: in the body of a let-bound function, of an anonymous function, in a definition
                    0 | 1 => emit(format!("h = (n : int) => ({}; {body} + n)\nh {}", defs.join("; "), r.gen_range(0..3)), "deforder"),
                    2 => emit(format!("((n : int) => ({}; {body} + n)) {}", defs.join("; "), r.gen_range(0..3)), "deforder"),
                    3 => emit(format!("c : int = ({}; {body})\nc + 1", defs.join("; ")), "deforder"),
                    _ => emit(format!("{}{sep}{body}", defs.join(sep)), "deforder"),
                }
            }
        }
        "typed" => {
            let depth: usize = args.get(3).and_then(|s| s.parse().ok()).unwrap_or(3);
            for _ in 0..count {
                emit(typed_program(&mut r, depth), "typed");
            }
        }
        "alias" => {
            // groups whose annotations are alias chains through the group, in every order, used at ground type outside
            for _ in 0..count {
                let l = r.gen_range(1..4);
                let base = ["int", "bool", "int -> int"][r.gen_range(0..3)];
                let value = match base { "int" => "4", "bool" => "true", _ => "(q : int) => q + 1" };
                let mut defs = vec![format!("y : a1 = {value}")];
                for j in 1..=l {
                    let rhs = if j == l { base.to_string() } else { format!("a{}", j + 1) };
                    defs.push(if r.gen_bool(0.5) { format!("a{j} = {rhs}") } else { format!("a{j} : type = {rhs}") });
                }
                // decoys: other type-valued members that a mis-shifted copy of the group could point at
                for j in 0..r.gen_range(0..3) {
                    defs.push(format!("z{j} = {}", ["bool", "int", "int -> bool", "type"][r.gen_range(0..4)]));
                }
                defs.shuffle(&mut r);
                let group = defs.join("; ");
                let text = match (base, r.gen_range(0..7)) {
                    // ILL-typed variants: the function over the aliased type is applied to a value of another type
                    ("int", 5) => format!("({group}; (w : a1) => w) true"),
                    ("bool", 5) => format!("({group}; (w : a1) => w) 3"),
                    ("int", 6) => format!("({group}; (w : a1) => w + 1) false"),
                    ("bool", 6) => format!("if ({group}; (w : a1) => w) 0 then 1 else 2"),
                    // a function over the aliased type, defined in the group and applied to a value of the base type outside
                    ("int", 3) => format!("({group}; (w : a1) => w) 7 + 1"),
                    ("bool", 3) => format!("if ({group}; (w : a1) => w) true then 1 else 2"),
                    ("int", 4) | ("bool", 4) => format!("({group}; (w : a1) => w) y"),
                    ("int", 0) => format!("({group}; y) + 1"),
                    ("int", 1) => format!("{group}; y + 1"),
                    ("bool", 0) => format!("if ({group}; y) then 1 else 2"),
                    ("int -> int", 0) => format!("({group}; y) 3"),
                    ("int -> int", _) => format!("{group}; y 3"),
                    _ => format!("{group}; y"),
                };
                emit(text, "alias");
            }
        }
        k => panic!("unknown generator {k}"),
    }
    print!("{}", out_cell.borrow());
}

// ---- type-directed generator: programs that are well typed BY CONSTRUCTION (fully annotated; groups, nested groups under
// binders, higher-order functions, guarded mutual recursion).  Only the driver knows that; the verdicts are TLC's.
#[derive(Clone, PartialEq, Debug)]
pub enum Ty {
    Int,
    Bool,
    Fun(Box<Ty>, Box<Ty>),
}
impl Ty {
    fn show(&self) -> String {
        match self {
            Ty::Int => "int".into(),
            Ty::Bool => "bool".into(),
            Ty::Fun(a, b) => format!("({} -> {})", a.show(), b.show()),
        }
    }
}

#[derive(Clone)]
pub struct Var {
    name: String,
    ty: Ty,
    rec_arg: Option<String>, // a recursive function: may only be applied to `<rec_arg> - 1`
}

pub struct TypedGen<'r> {
    r: &'r mut StdRng,
    next: usize,
}
impl TypedGen<'_> {
    fn fresh(&mut self, p: &str) -> String {
        self.next += 1;
        format!("{p}{}", self.next)
    }
    fn ground(&mut self) -> Ty {
        if self.r.gen_bool(0.7) { Ty::Int } else { Ty::Bool }
    }
    fn fun_ty(&mut self) -> Ty {
        match self.r.gen_range(0..4) {
            0 => Ty::Fun(Box::new(Ty::Int), Box::new(Ty::Int)),
            1 => Ty::Fun(Box::new(Ty::Int), Box::new(Ty::Bool)),
            2 => Ty::Fun(Box::new(Ty::Bool), Box::new(Ty::Int)),
            _ => Ty::Fun(Box::new(Ty::Fun(Box::new(Ty::Int), Box::new(Ty::Int))), Box::new(Ty::Int)),
        }
    }
    pub fn expr(&mut self, env: &[Var], ty: &Ty, depth: usize) -> String {
        let leafy = depth == 0;
        // variables and applications of variables that produce `ty`
        let mut options: Vec<String> = vec![];
        for v in env {
            if v.rec_arg.is_none() && v.ty == *ty {
                options.push(v.name.clone());
            }
        }
        if !leafy {
            for v in env.iter().rev().take(12) {
                if let Ty::Fun(a, b) = &v.ty {
                    if **b == *ty {
                        let arg = match &v.rec_arg {
                            Some(n) => format!("({n} - 1)"),
                            None => self.expr(env, a, depth - 1),
                        };
                        options.push(format!("({} {})", v.name, arg));
                    }
                }
            }
        }
        let pick_var = !options.is_empty() && self.r.gen_bool(if leafy { 0.7 } else { 0.35 });
        if pick_var {
            return options.choose(self.r).unwrap().clone();
        }
        if leafy {
            return match ty {
                Ty::Int => self.r.gen_range(0..10).to_string(),
                Ty::Bool => if self.r.gen_bool(0.5) { "true".into() } else { "false".into() },
                Ty::Fun(a, b) => {
                    let x = self.fresh("p");
                    let mut e2 = env.to_vec();
                    e2.push(Var { name: x.clone(), ty: (**a).clone(), rec_arg: None });
                    format!("(({x} : {}) => {})", a.show(), self.expr(&e2, b, 0))
                }
            };
        }
        let d = depth - 1;
        match ty {
            Ty::Fun(a, b) => {
                let x = self.fresh("p");
                let mut e2 = env.to_vec();
                e2.push(Var { name: x.clone(), ty: (**a).clone(), rec_arg: None });
                format!("(({x} : {}) => {})", a.show(), self.expr(&e2, b, d))
            }
            _ => match self.r.gen_range(0..10) {
                0 | 1 if *ty == Ty::Int => {
                    let op = ["+", "-", "*", "+", "-"][self.r.gen_range(0..5)];
                    format!("({} {op} {})", self.expr(env, &Ty::Int, d), self.expr(env, &Ty::Int, d))
                }
                2 if *ty == Ty::Int => format!("({} / {})", self.expr(env, &Ty::Int, d), self.r.gen_range(1..5)),
                3 if *ty == Ty::Int => format!("(- {})", self.expr(env, &Ty::Int, d)),
                0..=3 => {
                    let op = ["<", "<=", "==", ">", ">="][self.r.gen_range(0..5)];
                    format!("({} {op} {})", self.expr(env, &Ty::Int, d), self.expr(env, &Ty::Int, d))
                }
                4 | 5 => format!("(if {} then {} else {})", self.expr(env, &Ty::Bool, d), self.expr(env, ty, d), self.expr(env, ty, d)),
                6 => {
                    // immediately applied function
                    let a = self.ground();
                    let f = self.expr(env, &Ty::Fun(Box::new(a.clone()), Box::new(ty.clone())), d);
                    format!("({f} {})", self.expr(env, &a, d))
                }
                _ => self.group(env, ty, d),
            },
        }
    }
    // a definition group (1..3 definitions, possibly recursive functions) around a body of type `ty`
    fn group(&mut self, env: &[Var], ty: &Ty, d: usize) -> String {
        let n = self.r.gen_range(1..4);
        // decide the definitions: functions first in the environment sense (they do not mention the group's non-values)
        let mut funs: Vec<(String, Ty, bool)> = vec![];
        let mut vals: Vec<(String, Ty)> = vec![];
        for _ in 0..n {
            if self.r.gen_bool(0.5) {
                let t = if self.r.gen_bool(0.7) { Ty::Fun(Box::new(Ty::Int), Box::new(self.ground())) } else { self.fun_ty() };
                let recursive = matches!(&t, Ty::Fun(a, _) if **a == Ty::Int) && self.r.gen_bool(0.6);
                funs.push((self.fresh("f"), t, recursive));
            } else {
                let t = self.ground();
                vals.push((self.fresh("x"), t));
            }
        }
        // texts of the definitions
        let mut defs: Vec<(String, String)> = vec![]; // (name : type, definition)
        for (name, t, recursive) in &funs {
            let Ty::Fun(a, b) = t else { unreachable!() };
            // other functions of the group a body may call: non-recursive ones earlier in the list (acyclic, so everything
            // terminates); they may well be DEFINED later in the group's text (values are available to the whole group)
            let mut callable: Vec<Var> = vec![];
            for (g, gt, grec) in &funs {
                if g == name {
                    break;
                }
                if !*grec {
                    callable.push(Var { name: g.clone(), ty: gt.clone(), rec_arg: None });
                }
            }
            let text = if *recursive {
                let nvar = self.fresh("n");
                let mut base_env = env.to_vec();
                base_env.extend(callable.iter().cloned());
                base_env.push(Var { name: nvar.clone(), ty: Ty::Int, rec_arg: None });
                let base = self.expr(&base_env, b, d.min(1));
                let mut rec_env = base_env.clone();
                for (g, gt, grec) in &funs {
                    if *grec {
                        rec_env.push(Var { name: g.clone(), ty: gt.clone(), rec_arg: Some(nvar.clone()) });
                    } else if g != name {
                        let _ = gt;
                    }
                }
                let step = self.expr(&rec_env, b, d);
                format!("(({nvar} : int) => (if ({nvar} <= 0) then {base} else {step}))")
            } else {
                let x = self.fresh("p");
                let mut e2 = env.to_vec();
                e2.extend(callable.iter().cloned());
                e2.push(Var { name: x.clone(), ty: (**a).clone(), rec_arg: None });
                format!("(({x} : {}) => {})", a.show(), self.expr(&e2, b, d))
            };
            defs.push((format!("{name} : {}", t.show()), text));
        }
        // callable view of the group's functions: a recursive one only with a small literal argument
        let mut env2 = env.to_vec();
        for (name, t, recursive) in &funs {
            if !*recursive {
                env2.push(Var { name: name.clone(), ty: t.clone(), rec_arg: None });
            }
        }
        let rec_calls: Vec<(String, Ty)> = funs.iter().filter(|f| f.2).map(|f| (f.0.clone(), f.1.clone())).collect();
        let mut val_env = env2.clone();
        let call_rec = |s: &mut Self, ty: &Ty| -> Option<String> {
            let c: Vec<&(String, Ty)> = rec_calls.iter().filter(|(_, t)| matches!(t, Ty::Fun(_, b) if **b == *ty)).collect();
            c.choose(s.r).map(|(f, _)| format!("({f} {})", s.r.gen_range(0..5)))
        };
        for (name, t) in &vals {
            let text = match call_rec(self, t) {
                Some(c) if self.r.gen_bool(0.5) => c,
                _ => self.expr(&val_env, t, d),
            };
            defs.push((format!("{name} : {}", t.show()), text));
            val_env.push(Var { name: name.clone(), ty: t.clone(), rec_arg: None });
        }
        // order: interleave functions and values at random while keeping the values' relative order
        let nf = funs.len();
        let (fdefs0, vdefs) = defs.split_at(nf);
        let mut fdefs: Vec<(String, String)> = fdefs0.to_vec();
        fdefs.shuffle(self.r);
        let fdefs = &fdefs[..];
        let mut order: Vec<(String, String)> = vec![];
        let (mut i, mut j) = (0, 0);
        while i < fdefs.len() || j < vdefs.len() {
            if j >= vdefs.len() || (i < fdefs.len() && self.r.gen_bool(0.5)) {
                order.push(fdefs[i].clone());
                i += 1;
            } else {
                order.push(vdefs[j].clone());
                j += 1;
            }
        }
        let body = match call_rec(self, ty) {
            Some(c) if self.r.gen_bool(0.6) => c,
            _ => self.expr(&val_env, ty, d),
        };
        let sep = |s: &mut Self| if s.r.gen_bool(0.3) { "\n" } else { "; " };
        let mut out = String::from("(");
        for (h, t) in order {
            out += &format!("{h} = {t}");
            out += sep(self);
        }
        out += &body;
        out.push(')');
        out
    }
}

pub fn typed_program(r: &mut StdRng, depth: usize) -> String {
    let ty = if r.gen_bool(0.75) { Ty::Int } else { Ty::Bool };
    let mut g = TypedGen { r, next: 0 };
    g.group(&[], &ty, depth)
}


// ---- dependent-type family: acceptance hinges on whether two neutral index expressions are convertible
fn index_expr(r: &mut StdRng, depth: usize, want_bool: bool) -> Value {
    let var = |i: u64| json!({"k": "var", "i": i, "n": "?"});
    if want_bool {
        return if depth == 0 || r.gen_bool(0.3) {
            var(2) // b : bool
        } else {
            let op = ["lt", "le", "eq", "gt", "ge"][r.gen_range(0..5)];
            json!({"k": "bin", "op": op, "a": index_expr(r, depth - 1, false), "b": index_expr(r, depth - 1, false)})
        };
    }
    if depth == 0 {
        return match r.gen_range(0..3) { 0 => var(0), 1 => var(1), _ => lit(r.gen_range(0..3)) }; // m, n, literal
    }
    match r.gen_range(0..8) {
        0..=3 => {
            let op = ["sum", "diff", "prod", "quot"][r.gen_range(0..4)];
            json!({"k": "bin", "op": op, "a": index_expr(r, depth - 1, false), "b": index_expr(r, depth - 1, false)})
        }
        4 => json!({"k": "neg", "a": index_expr(r, depth - 1, false)}),
        5 => json!({"k": "if", "c": index_expr(r, depth - 1, true), "a": index_expr(r, depth - 1, false), "b": index_expr(r, depth - 1, false)}),
        6 => json!({"k": "app", "a": var(3), "b": index_expr(r, depth - 1, false)}), // g : int -> int
        7 if depth >= 2 => {
            // a definition group inside the index: `(a : int = E; a + 1)`; E lives under the group's binder
            let e = crate::c_gen::raise(&index_expr(r, depth - 2, false));
            json!({"k": "let", "defs": [{"n": "?", "ann": {"k": "int"}, "def": e}], "b": {"k": "bin", "op": "sum", "a": var(0), "b": lit(1)}})
        }
        _ => index_expr(r, 0, false),
    }
}

fn mutate_index(r: &mut StdRng, e: &Value) -> Value {
    let mut pos = vec![];
    positions(e, vec![], "root", &mut pos);
    let (path, _) = pos.choose(r).unwrap().clone();
    let mut out = e.clone();
    let node = get_mut(&mut out, &path);
    let k = node["k"].as_str().unwrap_or("").to_string();
    let new = match (r.gen_range(0..4), k.as_str()) {
        (0, "bin") | (0, "app") => {
            let mut n = node.clone();
            n["a"] = node["b"].clone();
            n["b"] = node["a"].clone();
            n
        }
        (1, "bin") => {
            let mut n = node.clone();
            let ops: &[&str] = if ["lt", "le", "eq", "gt", "ge"].contains(&node["op"].as_str().unwrap()) { &["lt", "le", "eq", "gt", "ge"] } else { &["sum", "diff", "prod", "quot"] };
            n["op"] = json!(ops.choose(r).unwrap());
            n
        }
        (_, "if") => json!({"k": "if", "c": node["c"], "a": node["b"], "b": node["a"]}),
        (_, "let") => {
            // one more definition after a shared prefix (same body shape): must not be judged equal
            let mut n = node.clone();
            let d0 = raise_in_group(&node["defs"][0]);
            n["defs"] = json!([d0, {"n": "?", "ann": {"k": "int"}, "def": lit(2)}]);
            n["b"] = json!({"k": "bin", "op": "sum", "a": {"k": "var", "i": 0, "n": "?"}, "b": lit(1)});
            n
        }
        (_, "var") => json!({"k": "var", "i": (node["i"].as_u64().unwrap() + 1) % 2, "n": "?"}),
        (_, "lit") => lit(r.gen_range(0..3)),
        (_, "neg") => node["a"].clone(),
        _ => node.clone(),
    };
    *node = new;
    out
}

// a definition of a 1-group moved into a 2-group as its first member: its own index 0 becomes 1, outer indices move by one
fn raise_in_group(d: &Value) -> Value {
    let t = tj::from_json(&d["def"]);
    let up = crate::de_bruijn::unsigned_shift(&t, 0, 1);
    json!({"n": "?", "ann": d["ann"], "def": tj::tj_with(&up, &mut tj::HoleIds::default(), false)})
}

// replace every free occurrence of index `from` by index `to` (both counted at the root)
fn swap_var(v: &Value, from: u64, to: u64) -> Value {
    fn go(v: &Value, c: u64, from: u64, to: u64) -> Value {
        match v["k"].as_str().unwrap_or("") {
            "var" => {
                if v["i"].as_u64().unwrap() == from + c { json!({"k": "var", "i": to + c, "n": "?"}) } else { v.clone() }
            }
            "lam" | "pi" => {
                let mut o = v.clone();
                o["a"] = go(&v["a"], c, from, to);
                o["b"] = go(&v["b"], c + 1, from, to);
                o
            }
            "let" => {
                let n = v["defs"].as_array().unwrap().len() as u64;
                let mut o = v.clone();
                o["defs"] = Value::Array(v["defs"].as_array().unwrap().iter().map(|d| json!({"n": d["n"], "ann": go(&d["ann"], c + n, from, to), "def": go(&d["def"], c + n, from, to)})).collect());
                o["b"] = go(&v["b"], c + n, from, to);
                o
            }
            _ => match v {
                Value::Object(m) => Value::Object(m.iter().map(|(k, x)| (k.clone(), if x.is_object() { go(x, c, from, to) } else { x.clone() })).collect()),
                x => x.clone(),
            },
        }
    }
    go(v, 0, from, to)
}

pub fn dependent_program(r: &mut StdRng) -> String {
    // context (outermost first): p : int -> type, g : int -> int, b : bool, n : int, m : int  => indices p=4 g=3 b=2 n=1 m=0
    let dep = r.gen_range(1..4);
    let e1 = index_expr(r, dep, false);
    let e2 = match r.gen_range(0..3) { 0 => e1.clone(), _ => mutate_index(r, &e1) };
    let pool = r.gen_range(0..4);
    let mut u = c_pipe::Unparser::new(pool);
    let mut env = vec!["p".to_string(), "g".to_string(), "b".to_string(), "n".to_string(), "m".to_string()];
    let (s1, s2) = (u.go(&e1, &mut env), u.go(&e2, &mut env));
    if r.gen_bool(0.25) {
        // the two indices differ only in that one uses `k`, a definition of the context equal to `n`: convertible, must be accepted
        let e1k = swap_var(&raise(&e1), 2, 0);
        let mut env2 = vec!["p".to_string(), "g".to_string(), "b".to_string(), "n".to_string(), "m".to_string(), "k".to_string()];
        let (t1, t2) = (u.go(&raise(&e1), &mut env2), u.go(&e1k, &mut env2));
        return format!("(p : int -> type) => (g : int -> int) => (b : bool) => (n : int) => (m : int) => (k : int = n; (f : p ({t1}) -> int) => (x : p ({t2})) => f x)");
    }
    match r.gen_range(0..3) {
        0 => format!("(p : int -> type) => (g : int -> int) => (b : bool) => (n : int) => (m : int) => (f : p ({s1}) -> int) => (x : p ({s2})) => f x"),
        1 => format!("(p : int -> type) => (g : int -> int) => (b : bool) => (n : int) => (m : int) => (x : p ({s2})) => (y : p ({s1}) = x; y)"),
        _ => format!("(p : int -> type) => (g : int -> int) => (b : bool) => (n : int) => (m : int) => (x : p ({s1})) => (h : (p ({s1}) -> int) -> int) => h ((z : p ({s2})) => 0)"),
    }
}

// free variables with index >= cutoff move up by `by` (a JSON term is placed under further binders)
pub fn shift_json(v: &Value, cutoff: u64, by: u64) -> Value {
    let k = v["k"].as_str().unwrap_or("");
    let mut o = v.clone();
    match k {
        "var" => {
            let i = v["i"].as_u64().unwrap();
            if i >= cutoff { o["i"] = json!(i + by); }
        }
        "hole" => {
            let i = v["sh"].as_u64().unwrap();
            if i >= cutoff { o["sh"] = json!(i + by); }
        }
        "lam" | "pi" => { o["a"] = shift_json(&v["a"], cutoff, by); o["b"] = shift_json(&v["b"], cutoff + 1, by); }
        "app" | "bin" => { o["a"] = shift_json(&v["a"], cutoff, by); o["b"] = shift_json(&v["b"], cutoff, by); }
        "neg" => { o["a"] = shift_json(&v["a"], cutoff, by); }
        "if" => { for f in ["c", "a", "b"] { o[f] = shift_json(&v[f], cutoff, by); } }
        "let" => {
            let n = v["defs"].as_array().unwrap().len() as u64;
            let defs: Vec<Value> = v["defs"].as_array().unwrap().iter().map(|d| { let mut d2 = d.clone(); d2["ann"] = shift_json(&d["ann"], cutoff + n, by); d2["def"] = shift_json(&d["def"], cutoff + n, by); d2 }).collect();
            o["defs"] = json!(defs);
            o["b"] = shift_json(&v["b"], cutoff + n, by);
        }
        _ => {}
    }
    o
}
