// Shared plumbing: reading TLC output, running cases on all cores, catching panics.
use serde_json::Value;
use std::{
    fs::File,
    io::{BufRead, BufReader},
    panic::{catch_unwind, AssertUnwindSafe},
    sync::Mutex,
};

// A TLC line `<<"TAG", "<json with TLA+ string escapes>">>` -> the JSON value.
pub fn parse_tlc_line(line: &str, tag: &str) -> Option<Value> {
    let prefix = format!("<<\"{tag}\", ");
    let rest = line.strip_prefix(&prefix)?;
    let rest = rest.trim_end();
    let lit = rest.strip_suffix(">>")?;
    let s: String = serde_json::from_str(lit).ok()?;
    serde_json::from_str(&s).ok()
}

pub fn read_lines(path: &str) -> Vec<String> {
    let f = File::open(path).unwrap_or_else(|e| panic!("cannot open {path}: {e}"));
    BufReader::new(f).lines().map(|l| l.unwrap()).collect()
}

pub fn tagged_lines(path: &str, tag: &str) -> Vec<String> {
    let prefix = format!("<<\"{tag}\", ");
    read_lines(path).into_iter().filter(|l| l.starts_with(&prefix)).collect()
}

pub fn nthreads() -> usize {
    std::env::var("GV_THREADS").ok().and_then(|s| s.parse().ok()).unwrap_or_else(|| {
        std::thread::available_parallelism().map(|n| n.get()).unwrap_or(4)
    })
}

// Run `f` over all items on all cores (16 MiB stacks, like gram's own worker thread); results in input order.
pub fn par_map<T: Sync, R: Send>(items: &[T], f: impl Fn(usize, &T) -> R + Sync) -> Vec<R> {
    let n = nthreads().min(items.len().max(1));
    let out: Mutex<Vec<(usize, R)>> = Mutex::new(Vec::with_capacity(items.len()));
    let chunk = items.len().div_ceil(n).max(1);
    std::thread::scope(|s| {
        for (ci, part) in items.chunks(chunk).enumerate() {
            let f = &f;
            let out = &out;
            std::thread::Builder::new()
                .stack_size(64 << 20)
                .spawn_scoped(s, move || {
                    let mut local = Vec::with_capacity(part.len());
                    for (j, it) in part.iter().enumerate() {
                        let idx = ci * chunk + j;
                        local.push((idx, f(idx, it)));
                    }
                    out.lock().unwrap().extend(local);
                })
                .unwrap();
        }
    });
    let mut v = out.into_inner().unwrap();
    v.sort_by_key(|(i, _)| *i);
    v.into_iter().map(|(_, r)| r).collect()
}

pub fn quiet_panics() {
    std::panic::set_hook(Box::new(|_| {}));
}

// A panic of the code under test is data.
pub fn guarded<R>(f: impl FnOnce() -> R) -> Result<R, String> {
    catch_unwind(AssertUnwindSafe(f)).map_err(|e| {
        if let Some(s) = e.downcast_ref::<&str>() {
            (*s).to_string()
        } else if let Some(s) = e.downcast_ref::<String>() {
            s.clone()
        } else {
            "panic".to_string()
        }
    })
}
