// Recovering the reported source range from a diagnostic.  gram's `Error` carries only text; with colour enabled
// the excerpt wraps exactly the bytes line[section_start..section_end] of every shown line in red, so the range
// can be read back byte-exactly (independently of how the colourless overline is drawn).
use crate::error::Error;

#[derive(Debug, Clone, PartialEq)]
pub struct Marked {
    pub line: usize,       // 1-based line number shown in the gutter
    pub text: String,      // the line as shown (trailing whitespace trimmed by gram)
    pub start: usize,      // byte offsets of the highlighted section within the shown line
    pub end: usize,
}

fn strip_ansi(s: &str) -> String {
    let mut out = String::new();
    let mut it = s.chars().peekable();
    while let Some(c) = it.next() {
        if c == '\u{1b}' {
            for d in it.by_ref() {
                if d == 'm' {
                    break;
                }
            }
        } else {
            out.push(c);
        }
    }
    out
}

// Parse the coloured excerpt of a message produced while `colored` is forced on.
pub fn marked_lines(message: &str) -> Vec<Marked> {
    let mut out = vec![];
    for raw in message.split('\n') {
        // gutter: "<n> │ " in bold blue
        let plain = strip_ansi(raw);
        let Some(bar) = plain.find(" \u{2502} ") else { continue };
        let num = plain[..bar].trim();
        let Ok(line) = num.parse::<usize>() else { continue };
        // walk the raw line after the gutter, tracking whether we are inside the red section
        let Some(rawbar) = raw.find(" \u{2502} ") else { continue };
        let mut rest = &raw[rawbar + " \u{2502} ".len()..];
        // skip the reset sequence that closes the gutter colour
        let mut text = String::new();
        let (mut start, mut end) = (None, None);
        let mut first_escape = true;
        while !rest.is_empty() {
            if let Some(stripped) = rest.strip_prefix('\u{1b}') {
                let m = stripped.find('m').unwrap_or(stripped.len() - 1);
                let code = &stripped[..m];
                rest = &stripped[m + 1..];
                if first_escape && text.is_empty() && (code == "[0" || code == "[0;0") {
                    first_escape = false;
                    continue;
                }
                first_escape = false;
                if code.contains("31") {
                    start = Some(text.len());
                } else if start.is_some() && end.is_none() {
                    end = Some(text.len());
                }
            } else {
                let c = rest.chars().next().unwrap();
                text.push(c);
                rest = &rest[c.len_utf8()..];
            }
        }
        let (s, e) = match (start, end) {
            (Some(s), Some(e)) => (s, e),
            (Some(s), None) => (s, text.len()),
            _ => (text.len(), text.len()), // empty section: `colored` emits nothing for an empty string
        };
        out.push(Marked { line, text, start: s, end: e });
    }
    out
}

// Absolute byte range [start, end) covered by the highlighted sections, given the source text.
pub fn absolute_range(source: &str, marks: &[Marked]) -> Option<(usize, usize)> {
    let mut starts = vec![0usize];
    for (i, b) in source.bytes().enumerate() {
        if b == b'\n' {
            starts.push(i + 1);
        }
    }
    let first = marks.first()?;
    let last = marks.last()?;
    let s = starts.get(first.line.checked_sub(1)?)? + first.start;
    let e = starts.get(last.line.checked_sub(1)?)? + last.end;
    Some((s, e))
}

pub fn error_range(source: &str, e: &Error) -> Option<(usize, usize)> {
    absolute_range(source, &marked_lines(&e.message))
}

pub fn plain(e: &Error) -> String {
    strip_ansi(&e.message)
}

// byte length of the code-quoted text of a message produced with colour on (code_str = magenta)
pub fn quoted_len(e: &Error) -> Option<usize> {
    let m = &e.message;
    let start = m.find("\u{1b}[35m")? + "\u{1b}[35m".len();
    let len = m[start..].find("\u{1b}[0m")?;
    Some(len)
}

pub fn plain_str(m: &str) -> String {
    strip_ansi(m)
}
