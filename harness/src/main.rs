// gv: conformance harness binding the TLA+ specification (/verif/spec) to gramlang/gram.
// It contains drivers, projections (Term <-> JSON) and comparisons -- never a second implementation of
// the language semantics.  The gram modules are compiled from GRAM_SRC (default /repo/src).
#![allow(dead_code, unused_imports, unused_macros, clippy::all)]
include!(concat!(env!("OUT_DIR"), "/gram_mods.rs"));
mod tj;
mod util;
mod c_term;
mod diag;
mod c_lex;
mod corpus;
mod sup;
mod c_pipe;
mod c_gen;
mod c_parse;
mod c_scope;
mod c_round;
mod c_diag;
mod c_unify;
mod c_ctx;
mod c_rewrite;
mod c_work;
mod c_peg;

fn main() {
    colored::control::set_override(false);
    let args: Vec<String> = std::env::args().collect();
    if args.len() < 2 {
        eprintln!("usage: gv <subcommand> ...");
        std::process::exit(2);
    }
    let rest = &args[2..];
    match args[1].as_str() {
        "replay-term" => c_term::replay(rest),
        "record-term" => c_term::record(rest),
        "replay-lex" => c_lex::replay(rest),
        "record-lex" => c_lex::record(rest),
        "record-relayout" => c_lex::record_relayout(rest),
        "record-scope" => c_scope::record(rest),
        "roundtrip" => c_round::main(rest),
        "record-unify" => c_unify::record(rest),
        "record-ctx" => c_ctx::record(rest),
        "replay-rewrite" => c_rewrite::replay(rest),
        "record-work" => c_work::record(rest),
        "replay-peg" => c_peg::replay(rest),
        "record-peg" => c_peg::record(rest),
        "replay-listing" => c_diag::replay_listing(rest),
        "plant-scope" => c_diag::plant_scope(rest),
        "plant-type" => c_diag::plant_type(rest),
        "replay-scope" => c_scope::replay(rest),
        "replay-parse" => c_parse::replay(rest),
        "repeat-parse" => c_parse::repeat_parse(rest),
        "accepts" => c_parse::accepts(rest),
        "gen-programs" => c_gen::main(rest),
        "parse-hosts" => c_gen::parse_hosts(rest),
        "record-pipeline" => c_pipe::record(rest),
        "replay-pipeline" => c_pipe::replay(rest),
        "worker" => match rest[0].as_str() {
            "pipeline" => c_pipe::worker(&rest[1..]),
            "record" => c_pipe::record_worker(&rest[1..]),
            "roundtrip" => c_round::worker(),
            "unify" => c_unify::worker(),
            "ctx" => c_ctx::worker(),
            "rewrite" => c_rewrite::worker(),
            "work" => c_work::worker(),
            "plant-type" => c_diag::plant_type_worker(),
            k => {
                eprintln!("unknown worker kind {k}");
                std::process::exit(2);
            }
        },
        "run-text" => {
            let text = rest[0].replace("\\n", "\n");
            println!("{}", c_pipe::record_case(&serde_json::json!({"text": text, "origin": "cli", "steps": false}).to_string(), 1000));
        }
        "show-parse-error" => {
            colored::control::set_override(true);
            let text: &'static str = tj::leak(&rest[0].replace("\\n", "\n"));
            let toks = tokenizer::tokenize(None, text).unwrap();
            let toks: &'static [token::Token<'static>] = Box::leak(toks.into_boxed_slice());
            match parser::parse(None, text, toks, &["u"]) {
                Ok(_) => println!("ok"),
                Err(e) => {
                    for x in e {
                        println!("{:?}\n{:?}\n{:?}", x.message, diag::marked_lines(&x.message), diag::error_range(text, &x));
                    }
                }
            }
        }
        "show-ranges" => {
            let text: &'static str = tj::leak(&rest[0].replace("\\n", "\n"));
            let toks = tokenizer::tokenize(None, text).unwrap();
            let toks: &'static [token::Token<'static>] = Box::leak(toks.into_boxed_slice());
            let t = parser::parse(None, text, toks, &["u", "f", "g"]).unwrap();
            fn walk(t: &term::Term, text: &str, d: usize) {
                let r = t.source_range.unwrap();
                println!("{}{:?} -> {:?}", " ".repeat(d * 2), std::mem::discriminant(&t.variant), &text[r.start..r.end]);
                use term::Variant::*;
                match &t.variant {
                    Lambda(_, _, a, b) | Pi(_, _, a, b) | Application(a, b) | Sum(a, b) | Difference(a, b) | Product(a, b) | Quotient(a, b) | LessThan(a, b) => { walk(a, text, d + 1); walk(b, text, d + 1); }
                    Negation(a) => walk(a, text, d + 1),
                    If(c, a, b) => { walk(c, text, d + 1); walk(a, text, d + 1); walk(b, text, d + 1); }
                    Let(ds, b) => { for (_, a, e) in ds { walk(a, text, d + 1); walk(e, text, d + 1); } walk(b, text, d + 1); }
                    _ => {}
                }
            }
            walk(&t, text, 0);
        }
        "show-error" => c_lex::show_error(rest),
        other => {
            eprintln!("unknown subcommand {other}");
            std::process::exit(2);
        }
    }
}
