// C19: meaning-preserving rewrites change neither acceptance nor result.  TLC generates (program, rewritten programs);
// every program is rendered with a different name pool, fully parenthesised and as printed by gram itself (minimal
// parentheses), and run through the real pipeline; the observations must agree.
use crate::{c_pipe, parser, sup, tj, token::Token, tokenizer, util};
use serde_json::{json, Value};
use std::time::Duration;

fn outcome(text: &str, fuel: usize) -> Value {
    match util::guarded(|| c_pipe::observe(text, fuel, false)) {
        Err(p) => json!({"accepted": false, "panic": p}),
        Ok(o) => {
            let end = o.end.clone().unwrap_or(json!({"k": "none"}));
            let k = end["k"].as_str().unwrap_or("").to_string();
            // functions are compared by kind only (a named subexpression is substituted into a closure as a value)
            let val = if matches!(k.as_str(), "lit" | "true" | "false" | "type" | "int" | "bool") { end.clone() } else { json!({"k": k}) };
            json!({"accepted": o.accepted, "stage": o.stage, "endk": o.end_kind, "value": val})
        }
    }
}

// gram's own rendering of the program (minimal parentheses): parse, then Display
fn reprint(text: &str) -> Option<String> {
    let src: &'static str = tj::leak(text);
    let toks = tokenizer::tokenize(None, src).ok()?;
    let toks: &'static [Token<'static>] = Box::leak(toks.into_boxed_slice());
    let t = parser::parse(None, src, toks, &[]).ok()?;
    Some(t.to_string())
}

// operator trees with exactly the parentheses grammar.y needs (left-associative chains per family: * /  above  + -  above the
// non-associative comparisons); anything else is rendered fully parenthesised.  gram's own Display keeps more parentheses
// than this (it groups a left operand that contains a grouped operand), so this rendering is not reachable through reprint.
fn chain_unparse(t: &Value) -> String {
    fn prec(op: &str) -> u8 {
        match op { "prod" | "quot" => 3, "sum" | "diff" => 2, _ => 1 }
    }
    fn sym(op: &str) -> &'static str {
        match op { "prod" => "*", "quot" => "/", "sum" => "+", "diff" => "-", "lt" => "<", "le" => "<=", "eq" => "==", "gt" => ">", "ge" => ">=", _ => "?" }
    }
    fn go(t: &Value, need: u8) -> String {
        match t["k"].as_str().unwrap_or("") {
            "bin" => {
                let op = t["op"].as_str().unwrap_or("");
                let p = prec(op);
                // comparisons do not chain: both operands must bind tighter
                let (l, r) = if p == 1 { (2, 2) } else { (p, p + 1) };
                let s = format!("{} {} {}", go(&t["a"], l), sym(op), go(&t["b"], r));
                if p < need { format!("({s})") } else { s }
            }
            "lit" if t["v"]["s"].as_i64().unwrap_or(0) >= 0 => c_pipe::unparse(t, 0),
            _ => { let s = c_pipe::unparse(t, 0); if s.starts_with('(') { s } else { format!("({s})") } }
        }
    }
    go(t, 0)
}

// wrap integer literals / constant keywords of a program text in parentheses: the `which`-th atom only, or (None) all of them
fn paren_atoms(text: &str, which: Option<usize>) -> (String, usize) {
    let src: &'static str = tj::leak(text);
    let Ok(toks) = tokenizer::tokenize(None, src) else { return (text.to_string(), 0) };
    let mut out = String::new();
    let mut pos = 0;
    let mut natoms = 0;
    for t in toks.iter() {
        let (s, e) = (t.source_range.start, t.source_range.end);
        out.push_str(&text[pos..s]);
        let atom = matches!(t.variant, crate::token::Variant::IntegerLiteral(_) | crate::token::Variant::True | crate::token::Variant::False | crate::token::Variant::Integer
            | crate::token::Variant::Boolean | crate::token::Variant::Type);
        let pick = atom && which.map_or(true, |w| w == natoms);
        if atom {
            natoms += 1;
        }
        if pick {
            out.push('(');
            out.push_str(&text[s..e]);
            out.push(')');
        } else {
            out.push_str(&text[s..e]);
        }
        pos = e;
    }
    out.push_str(&text[pos..]);
    (out, natoms)
}

fn same(a: &Value, b: &Value) -> bool {
    if a["accepted"] != b["accepted"] {
        return false;
    }
    if a["accepted"] == json!(false) {
        return true;
    }
    if a["endk"] == "fuel" || b["endk"] == "fuel" {
        return true;
    }
    a["endk"] == b["endk"] && (a["endk"] != "value" || c_pipe::same_term(&a["value"], &b["value"]))
}

pub fn case(line: &str) -> String {
    let rec: Value = serde_json::from_str(line).unwrap();
    let fuel = 400;
    let base_text = c_pipe::unparse(&rec["t"], 0);
    let base = outcome(&base_text, fuel);
    let mut bad = vec![];
    let mut n = 0;
    let check = |rule: &str, text: &str, bad: &mut Vec<Value>| {
        let o = outcome(text, fuel);
        if std::env::var("GV_DEBUG").is_ok() {
            eprintln!("{rule}: {text} -> {o}");
        }
        if !same(&base, &o) {
            bad.push(json!({"rule": rule, "original": base_text, "rewritten": text, "original_outcome": base, "rewritten_outcome": o}));
        }
    };
    // renaming + redundant parentheses on the original itself
    for pool in 1..5 {
        check("rename-bound-variables", &c_pipe::unparse(&rec["t"], pool), &mut bad);
        n += 1;
    }
    if let Some(p) = reprint(&base_text) {
        check("remove-redundant-parentheses", &p, &mut bad);
        n += 1;
        // ... and redundant parentheses added around atoms of the minimal rendering (literals and constant keywords are
        // expressions wherever they occur, so `2` may always be written `(2)`)
        let (all, natoms) = paren_atoms(&p, None);
        check("add-redundant-parentheses", &all, &mut bad);
        n += 1;
        for w in 0..natoms.min(12) {
            check("add-redundant-parentheses", &paren_atoms(&p, Some(w)).0, &mut bad);
            n += 1;
        }
    }
    if rec["t"]["k"] == "bin" {
        let p = chain_unparse(&rec["t"]);
        check("remove-redundant-parentheses (grammar-minimal)", &p, &mut bad);
        n += 1;
        let (all, natoms) = paren_atoms(&p, None);
        check("add-redundant-parentheses", &all, &mut bad);
        n += 1;
        for w in 0..natoms.min(12) {
            check("add-redundant-parentheses", &paren_atoms(&p, Some(w)).0, &mut bad);
            n += 1;
        }
    }
    for (i, r) in rec["rs"].as_array().unwrap().iter().enumerate() {
        let rule = r["rule"].as_str().unwrap();
        let text = c_pipe::unparse(&r["t"], i % 4);
        check(rule, &text, &mut bad);
        n += 1;
        if let Some(p) = reprint(&text) {
            check(&format!("{rule}+remove-redundant-parentheses"), &p, &mut bad);
            n += 1;
        }
    }
    json!({"n": n, "bad": bad, "accepted": base["accepted"]}).to_string()
}

// gv replay-rewrite <tlc-output REWRITE> <out.json>
pub fn replay(args: &[String]) {
    let lines = util::tagged_lines(&args[0], "REWRITE");
    let items: Vec<String> = lines.iter().map(|l| util::parse_tlc_line(l, "REWRITE").expect("bad REWRITE line").to_string()).collect();
    let answers = sup::run("rewrite", &[], &items, Duration::from_secs(30));
    let (mut n, mut crashes, mut acc) = (0u64, 0u64, 0u64);
    let mut bad: Vec<Value> = vec![];
    for a in answers {
        match a {
            sup::Answer::Line(l) => {
                let v: Value = serde_json::from_str(&l).unwrap();
                n += v["n"].as_u64().unwrap_or(0);
                if v["accepted"] == json!(true) {
                    acc += 1;
                }
                bad.extend(v["bad"].as_array().cloned().unwrap_or_default());
            }
            _ => crashes += 1,
        }
    }
    let sample = items.get(items.len() / 2).map(|s| serde_json::from_str::<Value>(s).unwrap());
    let out = json!({"programs": items.len(), "accepted_originals": acc, "rewritten_runs": n, "crashes": crashes, "mismatches": bad.len(), "first": bad.iter().take(100).collect::<Vec<_>>(),
        "sample": sample.map(|s| json!({"t": s["t"], "one_rewrite": s["rs"][0]}))});
    std::fs::write(&args[1], serde_json::to_string(&out).unwrap()).unwrap();
}

pub fn worker() {
    util::quiet_panics();
    sup::serve(case);
}
