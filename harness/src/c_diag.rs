// C15: diagnostics point at the offending source text.
//  (i)  listing(text, range) against GramListing (shown lines, numbers, text, marked columns between must and may)
//  (ii) planted faults: the reported range must be exactly the offending identifier / subexpression
use crate::{c_lex, c_parse, c_pipe, diag, error::{listing, SourceRange}, parser, tj, token::Token, tokenizer, type_checker, util};
use serde_json::{json, Value};
use std::collections::HashSet;

fn list_char(id: &str) -> char {
    match id {
        "x" => 'x',
        "e_acute" => 'é',
        "sp" => ' ',
        "em_space" => '\u{2003}',
        "rocket" => '\u{1F680}',
        o => c_lex::char_of_id(o),
    }
}

#[derive(Debug)]
pub struct Shown {
    pub number: usize,
    pub text: String,
    pub marked: Vec<usize>, // 1-based character columns
}

// parse the colourless rendering back: "<n> │ <text>" followed by "<gutter> <┊| > <spaces><‾...>"
pub fn parse_listing(s: &str) -> Result<Vec<Shown>, String> {
    let mut out: Vec<Shown> = vec![];
    let lines: Vec<&str> = s.split('\n').collect();
    let mut i = 0;
    if s.is_empty() {
        return Ok(out);
    }
    while i < lines.len() {
        let l = lines[i];
        let bar = l.find(" \u{2502} ").ok_or_else(|| format!("no gutter in {l:?}"))?;
        let number: usize = l[..bar].trim().parse().map_err(|_| format!("bad line number in {l:?}"))?;
        let gutter_chars = l[..bar].chars().count() + 3;
        let text = l[bar + " \u{2502} ".len()..].to_string();
        let mut marked = vec![];
        if i + 1 < lines.len() {
            let m = lines[i + 1];
            let cs: Vec<char> = m.chars().collect();
            if cs.len() < gutter_chars.saturating_sub(1) || !cs.iter().take(gutter_chars.min(cs.len())).all(|c| *c == ' ' || *c == '\u{250a}') {
                return Err(format!("bad marker line {m:?}"));
            }
            for (j, c) in cs.iter().enumerate().skip(gutter_chars) {
                match c {
                    '\u{203e}' => marked.push(j - gutter_chars + 1),
                    ' ' => {}
                    o => return Err(format!("unexpected {o:?} in marker line {m:?}")),
                }
            }
            i += 1;
        } else {
            return Err("missing marker line".into());
        }
        out.push(Shown { number, text, marked });
        i += 1;
    }
    Ok(out)
}

// gv replay-listing <tlc-output> <out.json>
pub fn replay_listing(args: &[String]) {
    util::quiet_panics();
    colored::control::set_override(false);
    let lines = util::tagged_lines(&args[0], "LIST");
    let results = util::par_map(&lines, |_, line| {
        let rec = util::parse_tlc_line(line, "LIST").expect("bad LIST line");
        let text_lines: Vec<String> = rec["t"].as_array().unwrap().iter().map(|l| l.as_array().unwrap().iter().map(|c| list_char(c.as_str().unwrap())).collect()).collect();
        let text = text_lines.join("\n");
        let (s, e) = (rec["s"].as_u64().unwrap() as usize, rec["e"].as_u64().unwrap() as usize);
        let got = util::guarded(|| listing(&text, SourceRange { start: s, end: e }));
        let fail = |what: &str, extra: Value| Some(json!({"what": what, "text": text, "s": s, "e": e, "want_lines": rec["lines"], "must": rec["must"], "may": rec["may"], "got": extra}));
        let rendered = match got {
            Err(p) => return fail("listing panicked", json!(p)),
            Ok(r) => r,
        };
        let shown = match parse_listing(&rendered) {
            Err(m) => return fail("excerpt cannot be read back", json!({"err": m, "rendered": rendered})),
            Ok(x) => x,
        };
        let want: Vec<usize> = rec["lines"].as_array().unwrap().iter().map(|x| x.as_u64().unwrap() as usize).collect();
        if shown.iter().map(|x| x.number).collect::<Vec<_>>() != want {
            return fail("shown lines are not exactly the lines spanned by the range", json!(rendered));
        }
        for (k, sh) in shown.iter().enumerate() {
            let full = &text_lines[sh.number - 1];
            if sh.text != full.trim_end() {
                return fail("shown line text differs from the source line", json!(rendered));
            }
            let set = |v: &Value| -> HashSet<usize> { v[k].as_array().unwrap().iter().map(|x| x.as_u64().unwrap() as usize).collect() };
            let (must, may) = (set(&rec["must"]), set(&rec["may"]));
            let marked: HashSet<usize> = sh.marked.iter().copied().collect();
            if !must.is_subset(&marked) {
                return fail("a character of the range is not marked", json!(rendered));
            }
            if !marked.is_subset(&may) {
                return fail("a character outside the range is marked", json!(rendered));
            }
        }
        None
    });
    let bad: Vec<Value> = results.into_iter().flatten().collect();
    let sample = lines.get(lines.len() / 2).and_then(|l| util::parse_tlc_line(l, "LIST"));
    let out = json!({"cases": lines.len(), "mismatches": bad.len(), "first": bad.iter().take(60).collect::<Vec<_>>(), "sample": sample});
    std::fs::write(&args[1], serde_json::to_string(&out).unwrap()).unwrap();
}

// ---- (ii) planted scoping faults on TLC-generated sentences.
// A use is renamed to an unbound name, or a binder to a name already in scope; the diagnostic must point at that token.
// Layout: the fault is preceded by `pre` lines and by non-ASCII text on its own line.
fn binder_and_use_positions(ast: &Value, binders: &mut Vec<usize>, uses: &mut Vec<usize>) {
    match ast {
        Value::Object(m) => {
            let k = m.get("k").and_then(Value::as_str).unwrap_or("");
            if (k == "lam" || k == "pi") && m["p"].as_u64().unwrap() > 0 {
                binders.push(m["p"].as_u64().unwrap() as usize);
            }
            if k == "var" {
                uses.push(m["p"].as_u64().unwrap() as usize);
            }
            if k == "let" {
                for d in m["defs"].as_array().unwrap() {
                    binders.push(d["p"].as_u64().unwrap() as usize);
                }
            }
            for v in m.values() {
                binder_and_use_positions(v, binders, uses);
            }
        }
        Value::Array(a) => a.iter().for_each(|v| binder_and_use_positions(v, binders, uses)),
        _ => {}
    }
}

fn layout(lex: &[String], variant: usize) -> String {
    // 0: one line; 1: a comment line and a blank line first; 2: non-ASCII comment-free prefix is impossible in source,
    // so a non-ASCII identifier definition precedes on the same line; 3: one token per line where the rule allows
    match variant % 3 {
        0 => lex.join(" "),
        1 => format!("# caf\u{e9} \u{3bb}\n\n  {}", lex.join(" ")),
        _ => lex.join("  "),
    }
}

// The reported range must be the offender's text; redundant parentheses written around the offender may be included.
pub fn range_ok(text: &str, got: Option<(usize, usize)>, want: (usize, usize)) -> bool {
    let Some((s, e)) = got else { return false };
    if (s, e) == want {
        return true;
    }
    if !(s <= want.0 && want.1 <= e && e <= text.len() && text.is_char_boundary(s) && text.is_char_boundary(e)) {
        return false;
    }
    let pre = &text[s..want.0];
    let post = &text[want.1..e];
    let opens = pre.chars().filter(|c| *c == '(').count();
    let closes = post.chars().filter(|c| *c == ')').count();
    opens == closes && opens > 0 && pre.chars().all(|c| c == '(' || c.is_whitespace()) && post.chars().all(|c| c == ')' || c.is_whitespace())
        && pre.starts_with('(') && post.ends_with(')')
}

// gv plant-scope <tlc-output SENT> <out.json>
pub fn plant_scope(args: &[String]) {
    util::quiet_panics();
    colored::control::set_override(true);
    let lines = util::tagged_lines(&args[0], "SENT");
    let results = util::par_map(&lines, |li, line| {
        let rec = util::parse_tlc_line(line, "SENT").expect("bad SENT line");
        let kinds: Vec<&str> = rec["y"].as_array().unwrap().iter().map(|k| k.as_str().unwrap()).collect();
        let (mut binders, mut uses) = (vec![], vec![]);
        binder_and_use_positions(&rec["ast"], &mut binders, &mut uses);
        let bset: HashSet<usize> = binders.iter().copied().collect();
        let mut bad = vec![];
        let mut n = 0u64;
        let faults: Vec<(usize, &str, &str)> = uses.iter().map(|p| (*p, "\u{3b6}z", "not in scope")).chain(binders.iter().map(|p| (*p, "u", "already exists"))).collect();
        for (fi, (p, name, expect)) in faults.into_iter().enumerate() {
            // non-ASCII binder names before the fault on the same line exercise column counting
            let lex: Vec<String> = kinds.iter().enumerate().map(|(i, k)| {
                if i + 1 == p { name.to_string() } else if bset.contains(&(i + 1)) { format!("\u{e9}{}", i + 1) } else { c_parse::lexeme(k, i + 1, Some("u")) }
            }).collect();
            let text = layout(&lex, li + fi);
            let r = util::guarded(|| {
                let toks = tokenizer::tokenize(None, &text).map_err(|_| "lex".to_string())?;
                if toks.len() != kinds.len() {
                    return Err("lex".to_string());
                }
                let want = (toks[p - 1].source_range.start, toks[p - 1].source_range.end);
                match parser::parse(None, &text, &toks[..], &["u"]) {
                    Ok(_) => Ok(Some(json!({"what": "planted scoping fault not reported", "text": text, "fault": expect}))),
                    Err(errs) => {
                        // error recovery may add further diagnostics (a re-bound name is dropped from scope when its
                        // binder ends); the statement is about where each diagnostic points: the planted fault must be
                        // reported, exactly at the offending identifier
                        let hits: Vec<_> = errs.iter().filter(|e| e.message.contains(expect)).collect();
                        if hits.is_empty() {
                            return Ok(Some(json!({"what": "planted scoping fault not reported as such", "text": text, "fault": expect, "msgs": errs.iter().map(diag::plain).collect::<Vec<_>>()})));
                        }
                        if !hits.iter().any(|h| range_ok(&text, diag::error_range(&text, h), want)) {
                            let got = diag::error_range(&text, hits[0]);
                            return Ok(Some(json!({"what": "diagnostic does not point at the offending identifier", "class": if p >= 2 && kinds[p - 2] == "LEFT_CURLY" { "implicit-binder" } else { "other" },
                                "text": text, "fault": expect, "want": [want.0, want.1], "got": got.map(|g| vec![g.0, g.1]), "msg": diag::plain(hits[0])})));
                        }
                        Ok(None)
                    }
                }
            });
            n += 1;
            match r {
                Ok(Ok(None)) | Ok(Err(_)) => {}
                Ok(Ok(Some(b))) => bad.push(b),
                Err(p) => bad.push(json!({"what": "panic", "text": text, "panic": p})),
            }
        }
        (n, bad)
    });
    let mut n = 0;
    let mut bad = vec![];
    for (k, b) in results {
        n += k;
        bad.extend(b);
    }
    let out = json!({"cases": n, "mismatches": bad.len(), "first": bad.iter().take(100).collect::<Vec<_>>()});
    std::fs::write(&args[1], serde_json::to_string(&out).unwrap()).unwrap();
}


// ---- (ii) planted TYPE faults on well-typed hosts (TLC-enumerated programs the specification types, and the corpus).
// One subterm whose required type follows from its parent alone is replaced by a constant of another ground type:
// the single diagnostic must point exactly at it.
fn plant_sites(t: &Value, path: Vec<String>, out: &mut Vec<(Vec<String>, Value, &'static str)>) {
    let k = t["k"].as_str().unwrap_or("");
    let sub = |x: &str| {
        let mut q = path.clone();
        q.push(x.to_string());
        q
    };
    let tru = json!({"k": "true"});
    let one = json!({"k": "lit", "v": {"s": 1, "m": [1]}});
    // offenders of the wrong ground type, atomic and compound (a negation, an operator, a conditional): the diagnostic has to
    // cover the whole offending subexpression whatever its shape
    let bools = [tru.clone(), json!({"k": "bin", "op": "lt", "a": one, "b": one}), json!({"k": "if", "c": tru, "a": tru, "b": tru})];
    let ints = [one.clone(), json!({"k": "neg", "a": one}), json!({"k": "bin", "op": "sum", "a": one, "b": one}), json!({"k": "if", "c": tru, "a": one, "b": one})];
    let mut put = |q: Vec<String>, pool: &[Value], role: &'static str| {
        for v in pool {
            out.push((q.clone(), v.clone(), role));
        }
    };
    match k {
        "bin" => {
            put(sub("a"), &bools, "operand");
            put(sub("b"), &bools, "operand");
        }
        "neg" => put(sub("a"), &bools, "operand"),
        "if" => put(sub("c"), &ints, "condition"),
        "app" => {
            put(sub("a"), &ints[..1], "applied literal");
            if t["a"]["k"] == "lam" && t["a"]["imp"] != json!(true) {
                match t["a"]["a"]["k"].as_str() {
                    Some("int") => put(sub("b"), &bools, "argument"),
                    Some("bool") => put(sub("b"), &ints, "argument"),
                    _ => {}
                }
            }
        }
        _ => {}
    }
    match k {
        "lam" | "pi" | "app" | "bin" => {
            plant_sites(&t["a"], sub("a"), out);
            plant_sites(&t["b"], sub("b"), out);
        }
        "neg" => plant_sites(&t["a"], sub("a"), out),
        "if" => {
            plant_sites(&t["c"], sub("c"), out);
            plant_sites(&t["a"], sub("a"), out);
            plant_sites(&t["b"], sub("b"), out);
        }
        "let" => {
            for (j, d) in t["defs"].as_array().unwrap().iter().enumerate() {
                for f in ["ann", "def"] {
                    let mut q = path.clone();
                    q.extend(["defs".to_string(), j.to_string(), f.to_string()]);
                    plant_sites(&d[f], q, out);
                }
            }
            plant_sites(&t["b"], sub("b"), out);
        }
        _ => {}
    }
}

fn set_at(v: &mut Value, path: &[String], new: Value) {
    let mut cur = v;
    for p in path {
        cur = if let Ok(i) = p.parse::<usize>() { &mut cur[i] } else { &mut cur[p.as_str()] };
    }
    *cur = new;
}

// worker: {"t": host term, "variant": n} -> {"n": cases, "bad": [...]}
pub fn plant_type_case(line: &str) -> String {
    let rec: Value = serde_json::from_str(line).unwrap();
    let host = &rec["t"];
    let variant = rec["variant"].as_u64().unwrap_or(0);
    let mut sites = vec![];
    plant_sites(host, vec![], &mut sites);
    let mut bad = vec![];
    let mut n = 0;
    for (si, (path, repl, role)) in sites.into_iter().enumerate() {
        let mut t = host.clone();
        set_at(&mut t, &path, repl);
        let v = (variant as usize + si) % 3;
        let prefix = match v { 0 => "", 1 => "# caf\u{e9}\n\n", _ => "#\n#\u{3bb}\n  " };
        let mut u = c_pipe::SpanUnparser::new(prefix, v == 2);
        u.go(&t, &mut vec![], vec![]);
        let text: &'static str = tj::leak(&u.out);
        let Some((_, s, e)) = u.spans.iter().find(|(p, _, _)| *p == path).cloned() else { continue };
        n += 1;
        let r = util::guarded(|| {
            let toks = tokenizer::tokenize(None, text).map_err(|_| "lex".to_string())?;
            let toks: &'static [Token<'static>] = Box::leak(toks.into_boxed_slice());
            let term = parser::parse(None, text, toks, &[]).map_err(|e| format!("parse: {}", diag::plain(&e[0])))?;
            let (mut tc, mut dc) = (vec![], vec![]);
            Ok::<_, String>(match type_checker::type_check(None, text, &term, &mut tc, &mut dc) {
                Ok(_) => Some(json!({"what": "planted type fault not reported", "role": role, "text": text})),
                Err(errs) => {
                    if !errs.iter().any(|x| range_ok(text, diag::error_range(text, x), (s, e))) {
                        Some(json!({"what": "diagnostic does not point at the offending subexpression", "role": role, "text": text, "want": [s, e], "got": diag::error_range(text, &errs[0]).map(|g| vec![g.0, g.1]), "msg": diag::plain(&errs[0])}))
                    } else {
                        None
                    }
                }
            })
        });
        match r {
            Ok(Ok(None)) => {}
            Ok(Ok(Some(b))) => bad.push(b),
            Ok(Err(m)) => bad.push(json!({"what": "harness: planted program does not reach the checker", "text": text, "msg": m})),
            Err(p) => bad.push(json!({"what": "panic", "text": text, "panic": p})),
        }
    }
    json!({"n": n, "bad": bad}).to_string()
}

// gv plant-type <tlc-output PROG | corpus> <out.json>
pub fn plant_type(args: &[String]) {
    colored::control::set_override(true);
    let mut items: Vec<String> = vec![];
    if args[0] == "corpus" {
        for (i, p) in crate::corpus::programs().iter().enumerate() {
            if p.contains("exfalso") || p.contains("t = int -> t") {
                continue;
            }
            if let Some(t) = crate::c_gen::parse_to_json(p) {
                items.push(json!({"t": t, "variant": i}).to_string());
            }
        }
    } else {
        for (i, l) in util::tagged_lines(&args[0], "PROG").iter().enumerate() {
            let rec = util::parse_tlc_line(l, "PROG").unwrap();
            if rec["holes"] == json!(false) && rec["v"]["ty"] == "ok" && rec["v"]["dord"] == "ok" {
                items.push(json!({"t": rec["t"], "variant": i}).to_string());
            }
        }
    }
    let answers = crate::sup::run("plant-type", &[], &items, std::time::Duration::from_secs(20));
    let (mut n, mut crashes) = (0u64, 0u64);
    let mut bad: Vec<Value> = vec![];
    for a in answers {
        match a {
            crate::sup::Answer::Line(l) => {
                let v: Value = serde_json::from_str(&l).unwrap();
                n += v["n"].as_u64().unwrap_or(0);
                bad.extend(v["bad"].as_array().cloned().unwrap_or_default());
            }
            _ => crashes += 1,
        }
    }
    let out = json!({"hosts": items.len(), "cases": n, "crashes": crashes, "mismatches": bad.len(), "first": bad.iter().take(100).collect::<Vec<_>>()});
    std::fs::write(&args[1], serde_json::to_string(&out).unwrap()).unwrap();
}

pub fn plant_type_worker() {
    util::quiet_panics();
    colored::control::set_override(true);
    crate::sup::serve(plant_type_case);
}
