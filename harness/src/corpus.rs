// Source programs used by the drivers: the repository's examples plus a fixed list exercising every construct.
pub const BUILTIN: &[&str] = &[
    "x = 1\ny = 2\nx + y",
    "f : int -> int = (x : int) => x * 2 + 1\nf (f 3)",
    "even : int -> bool = (n : int) => if n == 0 then true else odd (n - 1)\nodd : int -> bool = (n : int) => if n == 0 then false else even (n - 1)\neven 10",
    "id = {a : type} => (x : a) => x\nid {int} 5",
    "(a : type) => (x : a) => x",
    "twice = (f : int -> int) => (x : int) => f (f x); twice ((y : int) => y - 1) 10",
    "if 1 < 2 then 3 / 2 else -4",
    "k = (a : type) => (b : type) => (x : a) => (y : b) => x\nk int bool 1 true",
    "t : type = int\ny : t = 4\ny + 1",
    "(1 + 2) * (3 - 4) / (5)",
    "10 - (5 - 3) - 1",
    "p = (x : int) -> int\nq : p = (x : int) => x\nq 1 >= 0",
    "x = (\n  y = 2\n  y * y\n)\nx <= 4",
    "nat = (r : type) -> (r -> r) -> r -> r\nzero : nat = (r : type) => (s : r -> r) => (z : r) => z\nzero int ((n : int) => n + 1) 0",
    "a = 1; b = a + 1; c = b * b\nc == 4",
    "f = (x : int) =>\n  (y : int) =>\n    x +\n    y\nf 1\n  2",
    "not = (b : bool) => if b then false else true\nnot (1 > 2)",
];

// small higher-order / dependent programs whose single-node perturbations combined with one punched hole are
// enumerated completely (generator `hopunch`): inference then has to carry holes through substitution
pub const HIGHER_ORDER: &[&str] = &[
    "((f : int -> int) => f 1 + 1) ((x : int) => x * 2)",
    "((f : int -> bool) => if f 1 then 1 else 2) ((x : int) => x < 2)",
    "apply = (a : type) => (b : type) => (f : a -> b) => (x : a) => f x\napply int int ((x : int) => x + 1) 3",
    "k = (a : type) => (b : type) => (x : a) => (y : b) => x\nk int bool 1 true + 1",
    "id = (a : type) => (x : a) => x\nid (int -> int) ((y : int) => y) 4",
    "t : type = int -> int\ng : t = (x : int) => x\n((h : t) => h 2) g",
    "compose = (f : int -> int) => (g : int -> int) => (x : int) => f (g x)\ncompose ((a : int) => a + 1) ((b : int) => b * 2) 5",
    "((p : (a : type) -> a -> a) => p int 3) ((a : type) => (x : a) => x)",
];

pub fn programs() -> Vec<String> {
    let mut v: Vec<String> = BUILTIN.iter().map(|s| s.to_string()).collect();
    let dir = std::env::var("GRAM_SRC").map(|s| format!("{s}/../examples")).unwrap_or_else(|_| "/repo/examples".into());
    if let Ok(rd) = std::fs::read_dir(&dir) {
        let mut paths: Vec<_> = rd.flatten().map(|e| e.path()).filter(|p| p.extension().is_some_and(|e| e == "g")).collect();
        paths.sort();
        for p in paths {
            if let Ok(s) = std::fs::read_to_string(&p) {
                v.push(s);
            }
        }
    }
    v
}
