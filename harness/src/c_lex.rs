// C09 / C10: the real tokenizer against the lexer specification (spec/GramLexer.tla, GramLayout.tla).
use crate::{diag, token::{TerminatorType, Token, Variant}, tokenizer, tj, util};
use rand::{rngs::StdRng, seq::SliceRandom, Rng, SeedableRng};
use serde_json::{json, Value};
use unicode_segmentation::UnicodeSegmentation;

// symbolic character ids of the specification's alphabets (everything crossing the TLC boundary is ASCII)
pub fn char_of_id(id: &str) -> char {
    match id {
        "sp" => ' ',
        "tab" => '\t',
        "nl" => '\n',
        "cr" => '\r',
        "dq" => '"',
        "bs" => '\\',
        "e_acute" => 'é',
        "dollar" => '$',
        "excl" => '!',
        "U0301" => '\u{301}',
        "em_space" => '\u{2003}',
        "arabic3" => '\u{663}',
        "rocket" => '\u{1F680}',
        "lambda" => 'λ',
        _ => {
            let mut cs = id.chars();
            let c = cs.next().unwrap();
            if cs.next().is_none() {
                c
            } else if let Some(hex) = id.strip_prefix('U') {
                char::from_u32(u32::from_str_radix(hex, 16).unwrap()).unwrap()
            } else {
                panic!("unknown character id {id}")
            }
        }
    }
}

pub fn id_of_char(c: char) -> String {
    match c {
        ' ' => "sp".into(),
        '\t' => "tab".into(),
        '\n' => "nl".into(),
        '\r' => "cr".into(),
        '"' => "dq".into(),
        '\\' => "bs".into(),
        c if c.is_ascii_graphic() => c.to_string(),
        c => format!("U{:04X}", c as u32),
    }
}

// the specification's character classes, decided with `char`'s own Unicode predicates (not with the tokenizer)
pub fn class_of(c: char) -> &'static str {
    match c {
        '\n' => "nl",
        '#' => "hash",
        '_' => "us",
        '*' | ':' | '{' | '(' | '+' | '}' | ')' | '/' | ';' | '-' | '<' | '>' | '=' => "sym",
        c if c.is_alphabetic() => "alpha",
        c if c.is_ascii_digit() => "digit",
        c if c.is_alphanumeric() => "onum",
        c if c.is_whitespace() => "ws",
        _ => "bad",
    }
}

pub fn kind_of(v: &Variant) -> &'static str {
    match v {
        Variant::Asterisk => "ASTERISK",
        Variant::Boolean => "BOOLEAN",
        Variant::Colon => "COLON",
        Variant::DoubleEquals => "DOUBLE_EQUALS",
        Variant::Else => "ELSE",
        Variant::Equals => "EQUALS",
        Variant::False => "FALSE",
        Variant::GreaterThan => "GREATER_THAN",
        Variant::GreaterThanOrEqualTo => "GREATER_THAN_OR_EQUAL",
        Variant::Identifier(_) => "IDENTIFIER",
        Variant::If => "IF",
        Variant::Integer => "INTEGER",
        Variant::IntegerLiteral(_) => "INTEGER_LITERAL",
        Variant::LeftCurly => "LEFT_CURLY",
        Variant::LeftParen => "LEFT_PAREN",
        Variant::LessThan => "LESS_THAN",
        Variant::LessThanOrEqualTo => "LESS_THAN_OR_EQUAL",
        Variant::Minus => "MINUS",
        Variant::Plus => "PLUS",
        Variant::RightCurly => "RIGHT_CURLY",
        Variant::RightParen => "RIGHT_PAREN",
        Variant::Slash => "SLASH",
        Variant::Terminator(TerminatorType::LineBreak) => "NLTERM",
        Variant::Terminator(TerminatorType::Semicolon) => "TERMINATOR",
        Variant::Then => "THEN",
        Variant::ThickArrow => "THICK_ARROW",
        Variant::ThinArrow => "THIN_ARROW",
        Variant::True => "TRUE",
        Variant::Type => "TYPE",
    }
}

// observation of tokenize(text): {"ok":true,"toks":[{k,s,e,v,val?}]} | {"ok":false,"errs":[{s,e}]} | {"panic":..}
pub fn observe(text: &str) -> Value {
    let src: &'static str = tj::leak(text);
    match util::guarded(|| tokenizer::tokenize(None, src)) {
        Err(p) => json!({"panic": p}),
        Ok(Ok(toks)) => json!({"ok": true, "toks": toks.iter().map(|t| tok_json(t, src)).collect::<Vec<_>>()}),
        Ok(Err(errs)) => {
            let ranges: Vec<Value> = errs
                .iter()
                .map(|e| match diag::error_range(src, e) {
                    // the excerpt trims trailing whitespace of a line, which can clip a cluster such as
                    // <U+0600 U+3000>; the message quotes the symbol itself, so its length is exact
                    Some((s, end)) => json!({"s": s, "e": diag::quoted_len(e).map_or(end, |n| s + n)}),
                    None => json!({"s": -1, "e": -1, "msg": diag::plain(e)}),
                })
                .collect();
            json!({"ok": false, "errs": ranges, "first_msg": errs.first().map(diag::plain)})
        }
    }
}

pub fn tok_json(t: &Token, src: &str) -> Value {
    let k = kind_of(&t.variant);
    let slice = src.get(t.source_range.start..t.source_range.end);
    let v: Vec<String> = match (&t.variant, slice) {
        (Variant::Identifier(name), _) => name.chars().map(id_of_char).collect(),
        (Variant::IntegerLiteral(_), Some(s)) => s.chars().map(id_of_char).collect(),
        (Variant::Boolean | Variant::Else | Variant::False | Variant::If | Variant::Integer | Variant::Then | Variant::True | Variant::Type, Some(s)) => {
            s.chars().map(id_of_char).collect()
        }
        _ => vec![],
    };
    let mut o = json!({"k": k, "s": t.source_range.start, "e": t.source_range.end, "v": v, "onb": slice.is_some()});
    if let Variant::IntegerLiteral(n) = &t.variant {
        o["val"] = tj::big(n);
    }
    o
}

// symbolic ids of the specification's alphabets ("e_acute") -> the harness's canonical ids ("U00E9")
fn canon(v: &Value) -> Value {
    Value::Array(v.as_array().unwrap().iter().map(|i| json!(id_of_char(char_of_id(i.as_str().unwrap())))).collect())
}

// `sig`: compare only the significant tokens (C09 is about the partition of the text; whether a line break becomes a
// terminator is C10's subject)
fn same_tokens(want: &Value, got: &Value, text: &str, sig: bool) -> bool {
    if want["ok"] != got["ok"] {
        return false;
    }
    if want["ok"].as_bool() == Some(true) {
        let keep = |v: &Value| -> Vec<Value> { v["toks"].as_array().unwrap().iter().filter(|t| !sig || t["k"] != "NLTERM").cloned().collect() };
        let (w, g) = (&keep(want), &keep(got));
        if w.len() != g.len() {
            return false;
        }
        for (i, (a, b)) in w.iter().zip(g).enumerate() {
            if a["k"] != b["k"] || b["onb"] != json!(true) {
                return false;
            }
            if a["k"] == "NLTERM" {
                // which line break of the gap carries the terminator is not fixed by the statement
                let (s, e) = (b["s"].as_u64().unwrap() as usize, b["e"].as_u64().unwrap() as usize);
                let lo = if i > 0 { g[i - 1]["e"].as_u64().unwrap() as usize } else { 0 };
                let hi = if i + 1 < g.len() { g[i + 1]["s"].as_u64().unwrap() as usize } else { text.len() };
                if !(e == s + 1 && text.as_bytes().get(s) == Some(&b'\n') && lo <= s && e <= hi) {
                    return false;
                }
            } else if a["s"] != b["s"] || a["e"] != b["e"] || canon(&a["v"]) != b["v"] {
                return false;
            }
            if a["k"] == "INTEGER_LITERAL" {
                let digits: String = a["v"].as_array().unwrap().iter().map(|d| d.as_str().unwrap()).collect();
                if tj::big(&digits.parse().unwrap()) != b["val"] {
                    return false;
                }
            }
        }
        true
    } else {
        let norm = |v: &Value| {
            let mut r: Vec<(i64, i64)> = v["errs"].as_array().unwrap().iter().map(|e| (e["s"].as_i64().unwrap(), e["e"].as_i64().unwrap())).collect();
            r.sort_unstable();
            r
        };
        norm(want) == norm(got)
    }
}

// gv replay-lex <tlc-output> <out.json> [sig]
pub fn replay(args: &[String]) {
    let sig = args.get(2).is_some_and(|s| s == "sig");
    util::quiet_panics();
    colored::control::set_override(true);
    let lines = util::tagged_lines(&args[0], "LEX");
    let results = util::par_map(&lines, |_, line| {
        let rec = util::parse_tlc_line(line, "LEX").expect("bad LEX line");
        let text: String = rec["t"].as_array().unwrap().iter().map(|i| char_of_id(i.as_str().unwrap())).collect();
        let got = observe(&text);
        if same_tokens(&rec["r"], &got, &text, sig) { None } else { Some(json!({"text": text, "ids": rec["t"], "want": rec["r"], "got": got})) }
    });
    let bad: Vec<Value> = results.into_iter().flatten().collect();
    let sample = lines.get(lines.len() / 2).and_then(|l| util::parse_tlc_line(l, "LEX"));
    let out = json!({"behaviours": lines.len(), "cases": lines.len(), "mismatches": bad.len(), "first": bad.iter().take(40).collect::<Vec<_>>(), "sample": sample});
    std::fs::write(&args[1], serde_json::to_string(&out).unwrap()).unwrap();
}

pub fn show_error(args: &[String]) {
    colored::control::set_override(true);
    let text = args[0].replace("\\n", "\n");
    println!("{}", observe(&text));
}

// ---- direction B: random Unicode texts
pub fn text_chars(text: &str) -> Vec<Value> {
    let bounds: std::collections::HashSet<usize> = text.grapheme_indices(true).map(|(i, _)| i).collect();
    text.char_indices()
        .map(|(i, c)| json!({"id": id_of_char(c), "w": c.len_utf8(), "cls": class_of(c), "gb": bounds.contains(&i)}))
        .collect()
}

const POOLS: &[&[char]] = &[
    &['x', 'y', 'i', 'f', 'n', 't', 'e', 'l', 's', 'b', 'o', 'r', 'u', 'p', 'h', 'a', 'Z'],
    &['0', '1', '2', '9', '7'],
    &[' ', ' ', ' ', '\t', '\r', '\u{a0}', '\u{2003}', '\u{3000}'],
    &['\n', '\n', '#'],
    &['*', ':', '{', '(', '+', '}', ')', '/', ';', '-', '<', '>', '=', '_'],
    &['é', 'λ', 'ж', '中', '𝒳', 'ß', 'ﬁ', '\u{1100}', '\u{1161}', '\u{11a8}'],
    &['\u{301}', '\u{200d}', '\u{fe0f}', '\u{345}', '\u{1F1E6}', '\u{1F1FA}', '\u{1F468}', '\u{1F469}', '\u{1F680}', '\u{600}'],
    &['\u{663}', '\u{96c}', '²', '½', '\u{ff11}', 'Ⅷ'],
    &['$', '!', '@', '%', '^', '&', '|', '~', '`', '?', '.', ',', '\'', '"', '\\', '[', ']', '\u{0}', '\u{7f}', '\u{e000}', '\u{fffd}', '\u{10ffff}'],
];

pub fn random_text(r: &mut StdRng, n: usize) -> String {
    // weights favour token-forming characters so that long error-free stretches occur
    let mut s = String::new();
    let clean = r.gen_bool(0.6);
    for _ in 0..n {
        let p = if clean { *[0, 0, 0, 1, 2, 2, 3, 4, 4, 5].choose(r).unwrap() } else { r.gen_range(0..POOLS.len()) };
        if p == 1 && r.gen_bool(0.1) {
            // long literal
            for _ in 0..r.gen_range(20..300) {
                s.push(*POOLS[1].choose(r).unwrap());
            }
        }
        s.push(*POOLS[p].choose(r).unwrap());
    }
    s
}

// gv record-lex <seed> <count> <max-chars> <trace.ndjson> [sig|full]
pub fn record(args: &[String]) {
    let mode = args.get(4).cloned().unwrap_or_else(|| "full".to_string());
    util::quiet_panics();
    colored::control::set_override(true);
    let seed: u64 = args[0].parse().unwrap();
    let count: usize = args[1].parse().unwrap();
    let maxc: usize = args[2].parse().unwrap();
    let mut r = StdRng::seed_from_u64(seed);
    let mut out = String::new();
    for _ in 0..count {
        let n = r.gen_range(1..=maxc);
        let text = random_text(&mut r, n);
        let got = observe(&text);
        let mut ev = json!({"ev": "lex", "mode": mode, "text": text_chars(&text), "obs": got});
        ev["obs"].as_object_mut().unwrap().remove("first_msg");
        out += &format!("{ev}\n");
    }
    std::fs::write(&args[3], out).unwrap();
}

// ---- C10 direction B: re-layouts of whole programs
fn is_word(k: &str) -> bool {
    matches!(k, "IDENTIFIER" | "INTEGER_LITERAL" | "BOOLEAN" | "ELSE" | "FALSE" | "IF" | "INTEGER" | "THEN" | "TRUE" | "TYPE")
}
fn glue_safe(k: &str) -> bool {
    matches!(k, "ASTERISK" | "COLON" | "LEFT_CURLY" | "LEFT_PAREN" | "PLUS" | "RIGHT_CURLY" | "RIGHT_PAREN" | "SLASH" | "TERMINATOR")
}

fn blanks(r: &mut StdRng, min: usize) -> String {
    let n = r.gen_range(min..min + 3);
    (0..n).map(|_| *[' ', ' ', '\t'].choose(r).unwrap()).collect()
}

fn nl_gap(r: &mut StdRng) -> String {
    let pieces = ["\n", "\n", "#\n", "# c\u{e9}\n", " # x \n", "\r\n", "\n\n", "#\u{3bb}\n"];
    let mut s = blanks(r, 0);
    for _ in 0..r.gen_range(1..4) {
        s += pieces.choose(r).unwrap();
        s += &blanks(r, 0);
    }
    s
}

pub fn relayout(r: &mut StdRng, src: &str) -> Option<String> {
    let toks = tokenizer::tokenize(None, tj::leak(src)).ok()?;
    let sig: Vec<&Token> = toks.iter().filter(|t| kind_of(&t.variant) != "NLTERM").collect();
    let mut out = String::new();
    // leading gap
    out += &if r.gen_bool(0.5) { nl_gap(r) } else { blanks(r, 0) };
    for (i, t) in sig.iter().enumerate() {
        out += &src[t.source_range.start..t.source_range.end];
        if i + 1 == sig.len() {
            break;
        }
        let n = sig[i + 1];
        let gap = &src[t.source_range.end..n.source_range.start];
        let (ka, kb) = (kind_of(&t.variant), kind_of(&n.variant));
        let has_term = toks.iter().any(|x| kind_of(&x.variant) == "NLTERM" && x.source_range.start >= t.source_range.end && x.source_range.end <= n.source_range.start);
        if gap.contains('\n') {
            if has_term && gap.matches('\n').count() == 1 && !gap.contains('#') && r.gen_bool(0.2) {
                out += &format!("{};{}", blanks(r, 0), blanks(r, 0));
            } else {
                out += &nl_gap(r);
            }
        } else if gap.is_empty() {
            if r.gen_bool(0.3) {
                out += &blanks(r, 1);
            }
        } else if (glue_safe(ka) || glue_safe(kb)) && !(is_word(ka) && is_word(kb)) && r.gen_bool(0.3) {
            // drop the separator
        } else {
            out += &blanks(r, 1);
        }
    }
    // trailing gap, possibly a comment without a final line break
    out += &match r.gen_range(0..4) {
        0 => String::new(),
        1 => nl_gap(r),
        2 => " # end".to_string(),
        _ => "\n#\u{e9}".to_string(),
    };
    Some(out)
}

pub fn parse_digest(src: &str) -> String {
    let src: &'static str = tj::leak(src);
    let r = util::guarded(|| {
        let toks = match tokenizer::tokenize(None, src) {
            Ok(t) => t,
            Err(e) => return format!("lexerr:{}", e.len()),
        };
        let toks: &'static [Token<'static>] = Box::leak(toks.into_boxed_slice());
        match crate::parser::parse(None, src, toks, &[]) {
            Ok(t) => format!("ok:{}", tj::tj(&t)),
            Err(e) => format!("err:{}", e.len()),
        }
    });
    r.unwrap_or_else(|p| format!("panic:{p}"))
}

// gv record-relayout <seed> <count> <trace.ndjson>
// the program with every identifier consistently renamed to a name that begins with a keyword
fn keywordish_names(r: &mut StdRng, text: &str) -> Option<String> {
    const POOL: [&str; 14] = ["thence", "elsewhere", "then_branch", "else_branch", "iffy", "typed", "intx", "booleans", "truest", "falsely", "elsewise", "thenceforth", "ifs", "types"];
    let toks = tokenizer::tokenize(None, text).ok()?;
    let mut map: std::collections::HashMap<&str, String> = Default::default();
    let mut out = String::new();
    let mut at = 0;
    let start = r.gen_range(0..POOL.len());
    for t in &toks {
        if let crate::token::Variant::Identifier(name) = t.variant {
            if name == "_" { continue; }
            let k = map.len();
            let new = map.entry(name).or_insert_with(|| { let base = POOL[(start + k) % POOL.len()]; if k < POOL.len() { base.to_string() } else { format!("{base}{k}") } }).clone();
            out += &text[at..t.source_range.start];
            out += &new;
            at = t.source_range.end;
        }
    }
    out += &text[at..];
    Some(out)
}

pub fn record_relayout(args: &[String]) {
    util::quiet_panics();
    colored::control::set_override(true);
    let seed: u64 = args[0].parse().unwrap();
    let count: usize = args[1].parse().unwrap();
    let mut r = StdRng::seed_from_u64(seed);
    let progs: Vec<String> = crate::corpus::programs().into_iter().filter(|p| p.chars().count() < 700).collect();
    let mut out = String::new();
    let mut pairs: Vec<(String, String)> = vec![];
    // a separating line break before / after every kind of word that BEGINS or ENDS like a keyword, against the same program
    // written with `;` (the layout rule speaks about whole words)
    for w in ["thence", "elsewhere", "then_", "else1", "iffy", "typed", "integer", "booleans", "truest", "falsely", "athen", "nelse", "_then", "thenelse", "ifthen"] {
        pairs.push((format!("x = 2; {w} = 3; x + {w}"), format!("x = 2\n{w} = 3\nx + {w}")));
        pairs.push((format!("{w} = 2; x = {w}; x + {w}"), format!("{w} = 2\nx = {w}\n{w} + x")));
        pairs.push((format!("{w} = 2; x = {w}; {w}"), format!("{w} = 2\nx = {w}\n{w}")));
        pairs.push((format!("x = if true then {w} else 3; x"), format!("x = if true then {w} else 3\nx")));
    }
    pairs.retain(|(a, b)| {
        // only pairs whose `;` form the front end reads (free names are in scope errors either way; what matters is the tokens)
        tokenizer::tokenize(None, a).is_ok() && tokenizer::tokenize(None, b).is_ok()
    });
    pairs.truncate(count);
    while pairs.len() < count {
        let a0 = progs.choose(&mut r).unwrap();
        // half of the programs get their identifiers renamed to names that BEGIN with a keyword (whole-word matching is part of
        // the layout rule too: a line break before `thence` separates, a line break before `then` does not)
        let renamed = if r.gen_bool(0.5) { keywordish_names(&mut r, a0) } else { None };
        let a = renamed.as_ref().unwrap_or(a0);
        let Some(b) = relayout(&mut r, a) else { continue };
        pairs.push((a.clone(), b));
    }
    for (a, b) in &pairs {
        let (mut oa, mut ob) = (observe(a), observe(b));
        for o in [&mut oa, &mut ob] {
            o.as_object_mut().unwrap().remove("first_msg");
        }
        let (pa, pb) = (parse_digest(a), parse_digest(b));
        // digests are compared by the trace specification; long digests are shortened to a hash to keep events small
        let h = |s: &str| {
            use std::hash::{Hash, Hasher};
            let mut d = std::collections::hash_map::DefaultHasher::new();
            s.hash(&mut d);
            format!("{}:{:x}", s.split(':').next().unwrap(), d.finish())
        };
        out += &format!("{}\n", json!({"ev":"relayout","ta":text_chars(a),"tb":text_chars(b),"a":oa,"b":ob,"pa":h(&pa),"pb":h(&pb)}));
    }
    std::fs::write(&args[2], out).unwrap();
}
