// Generates `gram_mods.rs`: the library modules of gramlang/gram, included by path from GRAM_SRC
// (default /repo/src), so that the harness is always compiled from the repository's working tree.
use std::{env, fs, path::Path};
fn main() {
    let src = env::var("GRAM_SRC").unwrap_or_else(|_| "/repo/src".to_string());
    println!("cargo:rerun-if-env-changed=GRAM_SRC");
    let mods = [
        "assertions", "de_bruijn", "equality", "error", "evaluator", "format", "normalizer",
        "parser", "term", "token", "tokenizer", "type_checker", "unifier",
    ];
    let mut out = String::new();
    for m in mods {
        out += &format!("#[path = \"{src}/{m}.rs\"] pub mod {m};\n");
        println!("cargo:rerun-if-changed={src}/{m}.rs");
    }
    // optional hook module (present once the guarded instrumentation commit is in the tree)
    let hooks = format!("{src}/verif_hooks.rs");
    println!("cargo:rerun-if-changed={hooks}");
    if Path::new(&hooks).exists() {
        out += &format!("#[cfg(feature = \"verif\")] #[path = \"{hooks}\"] pub mod verif_hooks;\n");
        println!("cargo:rustc-cfg=have_hooks");
        if fs::read_to_string(&hooks).map(|t| t.contains("fn memo_log_start")).unwrap_or(false) {
            println!("cargo:rustc-cfg=have_memo_log");
        }
    }
    println!("cargo:rustc-check-cfg=cfg(have_memo_log)");
    println!("cargo:rustc-check-cfg=cfg(have_hooks)");
    fs::write(Path::new(&env::var("OUT_DIR").unwrap()).join("gram_mods.rs"), out).unwrap();
}
