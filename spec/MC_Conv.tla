---- MODULE MC_Conv ----
\* C06: coherence of definitional equality with evaluation.
\* M (design level, every accepted program up to MaxSize):
\*    WhnfRunAgree   a closed program of ground type: weak-head normalising it (as the checker does) gives the literal running it gives
\*    ConvIsNfEq     Conv(a, b) = yes  <=>  the normal forms of a and b are the same (modulo names and lambda annotations)
\*    ConvReflRed    a term is convertible with itself and with each of its reducts
\* G: pairs (a, b, verdict) for the real unify (both argument orders): reflexive, reduct, and a term against the members of a
\*    small pool of terms of the same type.
EXTENDS GramBuild, GramTyping, GramPool, Json
CONSTANTS RunFuel, TyFuel
T == Built
Ground(ty) == LET w == Whnf(ty, <<>>, TyFuel) IN w.ok /\ w.t.k \in {"int", "bool"}
Acc(t) == LET i == Infer(t, <<>>, TyFuel) IN i.r = "ok" /\ DefOrderOK(t)
WhnfRunAgree == (Done /\ ~HasHole(T) /\ Acc(T)) =>
   LET i == Infer(T, <<>>, TyFuel)  e == Run(T, RunFuel)  w == Whnf(T, <<>>, 20 * RunFuel) IN
   (Ground(i.ty) /\ e.r = "end" /\ IsValue(e.t) /\ w.ok) => Same(w.t, e.t)
SameType(a, b) == LET ia == Infer(a, <<>>, TyFuel) ib == Infer(b, <<>>, TyFuel) IN ia.r = "ok" /\ ib.r = "ok" /\ Conv(ia.ty, ib.ty, <<>>, TyFuel).r = "yes"
Partners(t) == { u \in Pool : SameType(t, u) }
NfEq(a, b) == LET na == Nf(a, <<>>, TyFuel) nb == Nf(b, <<>>, TyFuel) IN IF na.ok /\ nb.ok THEN (IF Same(na.t, nb.t) THEN "yes" ELSE "no") ELSE "fuel"
ConvIsNfEq == (Done /\ ~HasHole(T) /\ Acc(T)) => \A u \in Partners(T) :
   LET c == Conv(T, u, <<>>, TyFuel).r  n == NfEq(T, u) IN c = "fuel" \/ n = "fuel" \/ c = n
ConvReflRed == (Done /\ ~HasHole(T) /\ Acc(T)) => \A k \in 0..3 : Conv(T, StepN(T, k), <<>>, TyFuel).r # "no"
P(kind, a, b) == [kind |-> kind, a |-> a, b |-> b]
Pairs(t) == { P("reduct", t, StepN(t, k)) : k \in 0..3 }
            \cup { P(IF NfEq(t, u) = "yes" THEN "conv-yes" ELSE "conv-no", t, u) : u \in { x \in Partners(t) : NfEq(t, x) # "fuel" } }
Emit == (Done /\ size >= 2 /\ ~HasHole(T) /\ Acc(T)) => \A p \in Pairs(T) : PrintT(<<"PAIR", ToJson(p)>>)
====
