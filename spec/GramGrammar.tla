---- MODULE GramGrammar ----
\* The published grammar (GrammarY, generated from /repo/grammar.y) as a leftmost-derivation machine, the
\* derivation tree of a complete derivation, and the syntax tree the parser must build from it (C07):
\* application, `* /` and `+ -` chains associate to the LEFT, chains stop at parenthesised operands (explicit
\* parentheses are always honoured), unparenthesised nested definitions form one group.
EXTENDS Naturals, Sequences, FiniteSets, TLC, GrammarY
CONSTANT N                      \* bound on the number of tokens of a sentence
VARIABLES form, hist
gvars == <<form, hist>>
\* minimal yield length: let_annotation is the only nullable symbol
MinLen(s) == IF s = "let_annotation" THEN 0 ELSE 1
RECURSIVE SumMin(_)
SumMin(f) == IF f = <<>> THEN 0 ELSE MinLen(Head(f)) + SumMin(Tail(f))
RECURSIVE FirstNT(_,_)
FirstNT(f, i) == IF i > Len(f) THEN 0 ELSE IF f[i] \in Nonterminals THEN i ELSE FirstNT(f, i+1)
GInit == form = <<StartSymbol>> /\ hist = <<>>
Expand(p) == LET i == FirstNT(form, 1) IN
        /\ i > 0
        /\ Productions[p].lhs = form[i]
        /\ LET nf == SubSeq(form, 1, i-1) \o Productions[p].rhs \o SubSeq(form, i+1, Len(form)) IN
             /\ SumMin(nf) <= N
             /\ form' = nf
        /\ hist' = Append(hist, p)
GNext == \E p \in 1..Len(Productions) : Expand(p)
Complete == FirstNT(form, 1) = 0

\* ---- derivation tree from the history of a leftmost derivation ---------------------------------------
\* node: [s |-> nonterminal, kids |-> <<...>>]   leaf: [s |-> "TOK", tok |-> terminal, pos |-> 1-based position in the yield]
RECURSIVE TreeOf(_,_,_), Kids(_,_,_,_)
\* returns [t, h (rest of history), pos (next token position)]
TreeOf(sym, h, pos) ==
  IF sym \in Nonterminals THEN
     LET p == Productions[Head(h)]  ks == Kids(p.rhs, 1, Tail(h), pos)
     IN [t |-> [s |-> sym, kids |-> ks.ks], h |-> ks.h, pos |-> ks.pos]
  ELSE [t |-> [s |-> "TOK", tok |-> sym, pos |-> pos], h |-> h, pos |-> pos + 1]
Kids(rhs, i, h, pos) ==
  IF i > Len(rhs) THEN [ks |-> <<>>, h |-> h, pos |-> pos] ELSE
  LET k == TreeOf(rhs[i], h, pos)  rest == Kids(rhs, i + 1, k.h, k.pos)
  IN [ks |-> <<k.t>> \o rest.ks, h |-> rest.h, pos |-> rest.pos]
BuildTree(h) == TreeOf(StartSymbol, h, 1).t

\* ---- the syntax tree -------------------------------------------------------------------------------
\* [k |-> "type"|"int"|"bool"|"true"|"false"], [k |-> "var", p], [k |-> "lit", p], [k |-> "hole"],
\* [k |-> "lam"|"pi", imp, p (position of the binder's name; 0 = no name: non-dependent function type), a, b],
\* [k |-> "app", a, b], [k |-> "neg", a], [k |-> "bin", op, a, b], [k |-> "if", c, a, b],
\* [k |-> "let", defs |-> <<[p, ann, def], ...>>, b].   `p` fields are token positions of identifiers / literals.
HoleA == [k |-> "hole"]
K(t, i) == t.kids[i]
Sole(t) == Len(t.kids) = 1 /\ t.kids[1].s # "TOK"
OpOf(s) == CASE s = "sum" -> "sum" [] s = "difference" -> "diff" [] s = "product" -> "prod" [] s = "quotient" -> "quot"
             [] s = "less_than" -> "lt" [] s = "less_than_or_equal_to" -> "le" [] s = "equal_to" -> "eq"
             [] s = "greater_than" -> "gt" [] s = "greater_than_or_equal_to" -> "ge"
RECURSIVE Ast(_), AppOperands(_), MulChain(_), AddChain(_), LetDefs(_), LetBody(_), FoldApp(_,_,_), FoldBin(_,_,_)
\* application: atom small_term, right-nested; the chain continues only through an UNPARENTHESISED application
AppOperands(t) == LET a == K(t, 1)  s == K(t, 2) IN
   IF K(s, 1).s = "application" THEN <<a>> \o AppOperands(K(s, 1)) ELSE <<a, s>>
FoldApp(acc, xs, i) == IF i > Len(xs) THEN acc ELSE FoldApp([k |-> "app", a |-> acc, b |-> Ast(xs[i])], xs, i + 1)
\* products / quotients: small_term OP large_term; continues through large_term -> medium_term -> product | quotient
MulChain(t) == LET l == K(t, 1)  r == K(t, 3)  op == OpOf(t.s) IN
   IF K(r, 1).s = "medium_term" /\ K(K(r, 1), 1).s \in {"product", "quotient"}
   THEN LET c == MulChain(K(K(r, 1), 1)) IN [first |-> l, rest |-> <<[op |-> op, x |-> c.first]>> \o c.rest]
   ELSE [first |-> l, rest |-> <<[op |-> op, x |-> r]>>]
\* sums / differences: large_term OP huge_term; continues through huge_term -> sum | difference
AddChain(t) == LET l == K(t, 1)  r == K(t, 3)  op == OpOf(t.s) IN
   IF K(r, 1).s \in {"sum", "difference"}
   THEN LET c == AddChain(K(r, 1)) IN [first |-> l, rest |-> <<[op |-> op, x |-> c.first]>> \o c.rest]
   ELSE [first |-> l, rest |-> <<[op |-> op, x |-> r]>>]
FoldBin(acc, rest, i) == IF i > Len(rest) THEN acc ELSE FoldBin([k |-> "bin", op |-> rest[i].op, a |-> acc, b |-> Ast(rest[i].x)], rest, i + 1)
\* let: IDENTIFIER let_annotation EQUALS term TERMINATOR term; a body that is directly (unparenthesised) a let joins the group
LetDefs(t) == LET an == K(t, 2)
                  d == [p |-> K(t, 1).pos, ann |-> (IF Len(an.kids) = 0 THEN HoleA ELSE Ast(K(an, 2))), def |-> Ast(K(t, 4))]
                  b == K(t, 6)
              IN IF K(b, 1).s = "let" THEN <<d>> \o LetDefs(K(b, 1)) ELSE <<d>>
LetBody(t) == LET b == K(t, 6) IN IF K(b, 1).s = "let" THEN LetBody(K(b, 1)) ELSE Ast(b)
Ast(t) ==
  CASE t.s \in {"type", "integer", "boolean", "true", "false"} ->
          [k |-> CASE t.s = "type" -> "type" [] t.s = "integer" -> "int" [] t.s = "boolean" -> "bool" [] OTHER -> t.s]
    [] t.s = "variable" -> [k |-> "var", p |-> K(t, 1).pos]
    [] t.s = "integer_literal" -> [k |-> "lit", p |-> K(t, 1).pos]
    [] t.s = "lambda" -> [k |-> "lam", imp |-> FALSE, p |-> K(t, 1).pos, a |-> HoleA, b |-> Ast(K(t, 3))]
    [] t.s = "lambda_implicit" -> [k |-> "lam", imp |-> TRUE, p |-> K(t, 2).pos, a |-> HoleA, b |-> Ast(K(t, 5))]
    [] t.s = "annotated_lambda" -> [k |-> "lam", imp |-> FALSE, p |-> K(t, 2).pos, a |-> Ast(K(t, 4)), b |-> Ast(K(t, 7))]
    [] t.s = "annotated_lambda_implicit" -> [k |-> "lam", imp |-> TRUE, p |-> K(t, 2).pos, a |-> Ast(K(t, 4)), b |-> Ast(K(t, 7))]
    [] t.s = "pi" -> [k |-> "pi", imp |-> FALSE, p |-> K(t, 2).pos, a |-> Ast(K(t, 4)), b |-> Ast(K(t, 7))]
    [] t.s = "pi_implicit" -> [k |-> "pi", imp |-> TRUE, p |-> K(t, 2).pos, a |-> Ast(K(t, 4)), b |-> Ast(K(t, 7))]
    [] t.s = "non_dependent_pi" -> [k |-> "pi", imp |-> FALSE, p |-> 0, a |-> Ast(K(t, 1)), b |-> Ast(K(t, 3))]
    [] t.s = "application" -> LET xs == AppOperands(t) IN FoldApp(Ast(xs[1]), xs, 2)
    [] t.s = "let" -> [k |-> "let", defs |-> LetDefs(t), b |-> LetBody(t)]
    [] t.s = "negation" -> [k |-> "neg", a |-> Ast(K(t, 2))]
    [] t.s \in {"product", "quotient"} -> LET c == MulChain(t) IN FoldBin(Ast(c.first), c.rest, 1)
    [] t.s \in {"sum", "difference"} -> LET c == AddChain(t) IN FoldBin(Ast(c.first), c.rest, 1)
    [] t.s \in {"less_than", "less_than_or_equal_to", "equal_to", "greater_than", "greater_than_or_equal_to"} ->
          [k |-> "bin", op |-> OpOf(t.s), a |-> Ast(K(t, 1)), b |-> Ast(K(t, 3))]
    [] t.s = "if" -> [k |-> "if", c |-> Ast(K(t, 2)), a |-> Ast(K(t, 4)), b |-> Ast(K(t, 6))]
    [] t.s = "group" -> Ast(K(t, 2))                 \* parentheses leave no node, but they delimit chains (see above)
    [] OTHER -> Ast(K(t, 1))                          \* unit productions: term, atom, small_term ... jumbo_term
\* first / last token position of every tree (source range of the node built from it)
RECURSIVE FirstPos(_), LastPos(_)
FirstPos(t) == IF t.s = "TOK" THEN t.pos ELSE FirstPos(t.kids[1])
LastPos(t) == IF t.s = "TOK" THEN t.pos ELSE LastPos(t.kids[Len(t.kids)])
====
