---- MODULE GramScope ----
\* C08: name resolution as the property states it, on NAMED surface terms.
\*   - a function / function-type parameter scopes over its body / codomain only
\*   - all names of a definition group scope over every annotation, every definition and the body of the group;
\*     the group is the chain of UNPARENTHESISED lets in body position (a parenthesised one starts its own group)
\*   - `_` never binds and, used as an expression, denotes a fresh hole
\*   - a name that is not in scope, or that is bound again while in scope, is an error
EXTENDS Naturals, Sequences, FiniteSets, TLC, Json
CONSTANTS Names
\* named surface terms:  [k |-> "var", n] | [k |-> "type"] | [k |-> "hole"] | [k |-> "lam", n, ann (term or NoAnn), b] | [k |-> "pi", n, a, b]
\*                       | [k |-> "ndpi", a, b] | [k |-> "app", a, b] | [k |-> "let", n, ann, d, b, p (parenthesised when it is a let body)]
NoAnn == [k |-> "noann"]
Binders == Names \cup {"_"}
\* ---- scoping rules as stated by the property -------------------------------------------------
PosOf(ctx, x) == CHOOSE i \in 1..Len(ctx) : ctx[i] = x /\ \A j \in (i+1)..Len(ctx) : ctx[j] # x
InCtx(ctx, x) == x # "_" /\ \E i \in 1..Len(ctx) : ctx[i] = x
\* the chain of definitions of a group: nested lets in body position, not parenthesised
RECURSIVE Chain(_)
Chain(t) == IF t.b.k = "let" /\ ~t.b.p THEN <<t>> \o Chain(t.b) ELSE <<t>>
ChainBody(t) == LET c == Chain(t) IN c[Len(c)].b
\* result: [errs |-> number of scoping errors, idx |-> sequence of De Bruijn indices of variable occurrences in source order (annotation, then definition/body)]
RECURSIVE R(_,_), RDefs(_,_,_)
Join(x, y) == [errs |-> x.errs + y.errs, idx |-> x.idx \o y.idx]
Zero == [errs |-> 0, idx |-> <<>>]
Err1 == [errs |-> 1, idx |-> <<>>]
RECURSIVE AddNames(_,_,_)
\* add group names one by one; a name already in scope (or repeated) is an error but is still added
AddNames(ctx, names, i) == IF i > Len(names) THEN [ctx |-> ctx, errs |-> 0]
    ELSE LET rest == AddNames(Append(ctx, names[i]), names, i + 1) IN [ctx |-> rest.ctx, errs |-> rest.errs + (IF InCtx(ctx, names[i]) THEN 1 ELSE 0)]
RDefs(c, ctx, i) == IF i > Len(c) THEN Zero ELSE
    Join(Join(IF c[i].ann.k = "noann" THEN Zero ELSE R(c[i].ann, ctx), R(c[i].d, ctx)), RDefs(c, ctx, i + 1))
R(t, ctx) ==
  CASE t.k = "type" -> Zero
    [] t.k = "hole" -> Zero
    [] t.k = "var" -> IF InCtx(ctx, t.n) THEN [errs |-> 0, idx |-> <<Len(ctx) - PosOf(ctx, t.n)>>] ELSE Err1
    [] t.k = "lam" -> LET ra == IF t.ann.k = "noann" THEN Zero ELSE R(t.ann, ctx)
                          sh == IF InCtx(ctx, t.n) THEN Err1 ELSE Zero
                      IN Join(Join(ra, sh), R(t.b, Append(ctx, t.n)))
    [] t.k = "pi" -> Join(Join(R(t.a, ctx), IF InCtx(ctx, t.n) THEN Err1 ELSE Zero), R(t.b, Append(ctx, t.n)))
    [] t.k = "ndpi" -> Join(R(t.a, ctx), R(t.b, Append(ctx, "_")))
    [] t.k = "app" -> Join(R(t.a, ctx), R(t.b, ctx))
    [] t.k = "let" -> LET c == Chain(t)  names == [i \in 1..Len(c) |-> c[i].n]  an == AddNames(ctx, names, 1) IN
                      Join(Join([errs |-> an.errs, idx |-> <<>>], RDefs(c, an.ctx, 1)), R(ChainBody(t), an.ctx))
\* ---- unparse, fully parenthesised
RECURSIVE U(_), ULet(_)
U(t) ==
  CASE t.k = "type" -> <<"type">>
    [] t.k = "hole" -> <<"_">>
    [] t.k = "var" -> <<t.n>>
    [] t.k = "lam" -> IF t.ann.k = "noann" THEN <<"(", t.n, "=>">> \o U(t.b) \o <<")">> ELSE <<"(", "(", t.n, ":">> \o U(t.ann) \o <<")", "=>">> \o U(t.b) \o <<")">>
    [] t.k = "pi" -> <<"(", "(", t.n, ":">> \o U(t.a) \o <<")", "->">> \o U(t.b) \o <<")">>
    [] t.k = "ndpi" -> <<"(">> \o U(t.a) \o <<"->">> \o U(t.b) \o <<")">>
    [] t.k = "app" -> <<"(">> \o U(t.a) \o U(t.b) \o <<")">>
    [] t.k = "let" -> <<"(">> \o ULet(t) \o <<")">>
ULet(t) == <<t.n>> \o (IF t.ann.k = "noann" THEN <<>> ELSE <<":">> \o U(t.ann)) \o <<"=">> \o U(t.d) \o <<";">> \o
           (IF t.b.k = "let" /\ ~t.b.p THEN ULet(t.b) ELSE U(t.b))
\* holes: every `_` used as an expression and every omitted annotation
RECURSIVE Holes(_)
Holes(t) ==
  CASE t.k = "hole" -> 1
    [] t.k = "lam" -> (IF t.ann.k = "noann" THEN 1 ELSE Holes(t.ann)) + Holes(t.b)
    [] t.k \in {"pi", "ndpi", "app"} -> Holes(t.a) + Holes(t.b)
    [] t.k = "let" -> (IF t.ann.k = "noann" THEN 1 ELSE Holes(t.ann)) + Holes(t.d) + Holes(t.b)
    [] OTHER -> 0
====
