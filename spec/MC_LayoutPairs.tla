---- MODULE MC_LayoutPairs ----
\* C10 (direction A, complete over both layout tables): every ordered pair of token kinds x every gap filling
\* x every trailer.  TLC checks the layout rule on each text and emits the prescribed tokens for replay.
EXTENDS GramLayout, Json
VARIABLE cs
Ch(id, cls) == [id |-> id, w |-> 1, cls |-> cls, gb |-> TRUE]
EA == [id |-> "e_acute", w |-> 2, cls |-> "alpha", gb |-> TRUE]
ClsOf(id) == IF id \in {"x","b","o","l","e","s","f","a","i","n","t","h","r","u","y","p"} THEN "alpha" ELSE IF id = "1" THEN "digit" ELSE "sym"
Chars(ids) == [j \in 1..Len(ids) |-> Ch(ids[j], ClsOf(ids[j]))]
Kinds == (KeywordKinds \cup SymbolKinds \cup {"IDENTIFIER", "INTEGER_LITERAL"}) \ {"NLTERM"}
Lexeme(k) == IF k = "IDENTIFIER" THEN Chars(<<"x">>) ELSE IF k = "INTEGER_LITERAL" THEN Chars(<<"1">>)
             ELSE IF k \in KeywordKinds THEN Chars(KeywordSpelling[k]) ELSE Chars(SymbolSpelling[k])
H == Ch("#", "hash")   T == Ch("tab", "ws")   R == Ch("cr", "ws")   Xc == Ch("x", "alpha")
Gaps == { <<>>, <<SP>>, <<T>>, <<SP, SP, T>>, <<NL>>, <<NL, NL>>, <<NL, NL, NL>>, <<R, NL>>, <<SP, NL, T>>,
          <<H, NL>>, <<H, EA, NL>>, <<SP, H, Xc, SP, NL>>, <<NL, H, NL>>, <<H, NL, H, EA, NL, SP>>, <<H, H, NL>>, <<NL, SP, H, Xc>> \o <<NL>> }
Trailers == { <<>>, <<SP, H, EA>>, <<NL>> }
Init == \E a \in Kinds, b \in Kinds, g \in Gaps, t \in Trailers : cs = [a |-> a, b |-> b, text |-> Lexeme(a) \o g \o Lexeme(b) \o t]
Next == UNCHANGED cs
Ids(t) == [i \in 1..Len(t) |-> t[i].id]
InvLayout == LayoutRule(cs.text, Lex(cs.text))
InvCorrect == Correct(cs.text, Lex(cs.text))
InvRelayout == Relayouts(cs.text)
Emit == PrintT(<<"LEX", ToJson([t |-> Ids(cs.text), r |-> Lex(cs.text), a |-> cs.a, b |-> cs.b])>>)
====
