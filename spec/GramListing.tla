---- MODULE GramListing ----
\* C15: what a source excerpt must show for a byte range [s, e) of a text (src/error.rs listing).
\* A text is a sequence of lines, a line a sequence of characters [id, w (UTF-8 width), ws (is whitespace)].
\* Shown: exactly the lines spanned by the range, with their 1-based numbers and their text (trailing whitespace
\* trimmed); on each shown line the characters of the range MUST be marked, except leading indentation of
\* continuation lines and trailing whitespace, which MAY be marked or not; nothing else may be marked.
EXTENDS Naturals, Sequences, FiniteSets, TLC, Json
\* a text is a sequence of lines; a line is a sequence of characters [id, w (UTF-8 width), ws (is whitespace)]
X == [id |-> "x", w |-> 1, ws |-> FALSE]
E == [id |-> "e_acute", w |-> 2, ws |-> FALSE]
S == [id |-> "sp", w |-> 1, ws |-> TRUE]
T3 == [id |-> "em_space", w |-> 3, ws |-> TRUE]
R4 == [id |-> "rocket", w |-> 4, ws |-> FALSE]
RECURSIVE LineBytes(_)
LineBytes(ln) == IF ln = <<>> THEN 0 ELSE Head(ln).w + LineBytes(Tail(ln))
\* byte offset of column c (1-based) within its line
RECURSIVE ColOff(_,_)
ColOff(ln, c) == IF c = 1 THEN 0 ELSE ln[c-1].w + ColOff(ln, c-1)
RECURSIVE LineStart(_,_)
LineStart(txt, i) == IF i = 1 THEN 0 ELSE LineStart(txt, i-1) + LineBytes(txt[i-1]) + 1      \* + 1 for the line feed
TotalBytes(txt) == LineStart(txt, Len(txt)) + LineBytes(txt[Len(txt)])
Boundaries(txt) == UNION { { LineStart(txt, i) + ColOff(txt[i], c) : c \in 1..(Len(txt[i]) + 1) } : i \in 1..Len(txt) }
\* the ranges a diagnostic can carry: the text of a symbol, an identifier or a subexpression -- it begins and ends with a
\* character that is not whitespace -- or an empty range (end of input).  listing() is not required to cope with others.
Reportable(txt, s, e) ==
  \/ s = e
  \/ /\ \E i \in 1..Len(txt) : \E c \in 1..Len(txt[i]) : LineStart(txt, i) + ColOff(txt[i], c) = s /\ ~txt[i][c].ws
     /\ \E i \in 1..Len(txt) : \E c \in 1..Len(txt[i]) : LineStart(txt, i) + ColOff(txt[i], c) + txt[i][c].w = e /\ ~txt[i][c].ws
\* ---- what the statement requires of an excerpt for range [s, e)
\* a line is spanned if some byte of it (its characters or its line feed) lies in the range; an empty range spans nothing by itself
Spanned(txt, i, s, e) == LET ls == LineStart(txt, i)  le == ls + LineBytes(txt[i]) IN   \* le = offset of the line feed
    IF s < e THEN ls < e /\ s <= le ELSE ls < s /\ s <= le
LeadingWs(ln) == { c \in 1..Len(ln) : \A d \in 1..c : ln[d].ws }
TrailingWs(ln) == { c \in 1..Len(ln) : \A d \in c..Len(ln) : ln[d].ws }
InRange(txt, i, c, s, e) == LET o == LineStart(txt, i) + ColOff(txt[i], c) IN s <= o /\ o < e
Must(txt, i, s, e) == { c \in 1..Len(txt[i]) : InRange(txt, i, c, s, e) } \ (TrailingWs(txt[i]) \cup (IF s <= LineStart(txt, i) THEN LeadingWs(txt[i]) ELSE {}))
May(txt, i, s, e) == { c \in 1..Len(txt[i]) : InRange(txt, i, c, s, e) }     \* never a character outside the range
Expect(txt, s, e) == [i \in { j \in 1..Len(txt) : Spanned(txt, j, s, e) } |-> [must |-> Must(txt, i, s, e), may |-> May(txt, i, s, e)]]
====
