CONSTANTS MaxSize = 4  EmitFrom = 1  FreeVars = 2  MaxIdx = 4
  Formers = {"type","lit","var","lam","pi","app","bin","neg","if","let1","let2"}
  Ops = {"sum"}  Lits = {1}
INIT BInit
NEXT BNext
INVARIANTS InvLaws Emit
CHECK_DEADLOCK FALSE
