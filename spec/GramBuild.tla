---- MODULE GramBuild ----
\* Generator machine for De Bruijn terms: fills the leftmost open slot of a partial term (preorder),
\* knowing the slot's binder depth, so only well-scoped terms are produced.  "All inputs up to the
\* bound" = "all behaviours of this machine up to the bound".
EXTENDS GramTerm
CONSTANTS MaxSize,     \* number of term formers (every node weighs 1)
          Formers,     \* enabled formers: subset of {"type","int","bool","true","false","lit","var","hole","lam","pi","app","bin","neg","if","let1","let2","let3"}
          Ops,         \* binary operators used by "bin"
          Lits,        \* small integers used by "lit"
          FreeVars,    \* number of free indices allowed beyond the binder depth (0 = closed programs)
          MaxIdx       \* largest index a variable may carry
VARIABLES pre, pending, size
bvars == <<pre, pending, size>>
\* pre: preorder list of node labels; pending: depths of unfilled slots, leftmost first
BInit == pre = <<>> /\ pending = <<0>> /\ size = 0
Room(k) == size + 1 + (Len(pending) - 1) + k <= MaxSize
Fill(label, newSlots) == /\ pending # <<>> /\ Room(Len(newSlots))
                         /\ pre' = Append(pre, label) /\ pending' = newSlots \o Tail(pending) /\ size' = size + 1
D == Head(pending)
Rep(n, x) == [j \in 1..n |-> x]
BNext ==
  /\ pending # <<>>
  /\ \/ \E k \in {"type","int","bool","true","false"} \cap Formers : Fill([k |-> k], <<>>)
     \/ "lit" \in Formers /\ \E v \in Lits : Fill([k |-> "lit", v |-> v], <<>>)
     \/ "var" \in Formers /\ \E i \in 0..MaxIdx : i < D + FreeVars /\ Fill([k |-> "var", i |-> i], <<>>)
     \/ "hole" \in Formers /\ Fill([k |-> "hole"], <<>>)
     \/ "lam" \in Formers /\ Fill([k |-> "lam"], <<D, D+1>>)
     \/ "pi" \in Formers /\ Fill([k |-> "pi"], <<D, D+1>>)
     \/ "app" \in Formers /\ Fill([k |-> "app"], <<D, D>>)
     \/ "bin" \in Formers /\ \E op \in Ops : Fill([k |-> "bin", op |-> op], <<D, D>>)
     \/ "neg" \in Formers /\ Fill([k |-> "neg"], <<D>>)
     \/ "if" \in Formers /\ Fill([k |-> "if"], <<D, D, D>>)
     \/ "let1" \in Formers /\ Fill([k |-> "let", n |-> 1], Rep(3, D+1))
     \/ "let2" \in Formers /\ Fill([k |-> "let", n |-> 2], Rep(5, D+2))
     \/ "let3" \in Formers /\ Fill([k |-> "let", n |-> 3], Rep(7, D+3))
Done == pending = <<>>
\* rebuild: returns [t, r (rest of the label list)]
RECURSIVE Build(_)
Build(p) ==
  LET h == Head(p) r == Tail(p) IN
  CASE h.k \in {"type","int","bool","true","false"} -> [t |-> [k |-> h.k], r |-> r]
    [] h.k = "lit" -> [t |-> Lit(OfSmall(h.v)), r |-> r]
    [] h.k = "var" -> [t |-> Var(h.i), r |-> r]
    [] h.k = "hole" -> [t |-> Hole(Len(r) + 1, 0), r |-> r]
    [] h.k \in {"lam","pi"} -> LET a == Build(r) b == Build(a.r) IN [t |-> Binder(h.k, "?", FALSE, a.t, b.t), r |-> b.r]
    [] h.k = "app" -> LET a == Build(r) b == Build(a.r) IN [t |-> App(a.t, b.t), r |-> b.r]
    [] h.k = "bin" -> LET a == Build(r) b == Build(a.r) IN [t |-> Bin(h.op, a.t, b.t), r |-> b.r]
    [] h.k = "neg" -> LET a == Build(r) IN [t |-> NegT(a.t), r |-> a.r]
    [] h.k = "if" -> LET c == Build(r) a == Build(c.r) b == Build(a.r) IN [t |-> IfT(c.t, a.t, b.t), r |-> b.r]
    [] h.k = "let" ->
         LET RECURSIVE defs(_,_)
             defs(j, q) == IF j > h.n THEN [ds |-> <<>>, r |-> q] ELSE
                 LET an == Build(q) df == Build(an.r) rest == defs(j + 1, df.r)
                 IN [ds |-> <<[n |-> "?", ann |-> an.t, def |-> df.t]>> \o rest.ds, r |-> rest.r]
             ds == defs(1, r)
             b == Build(ds.r)
         IN [t |-> LetT(ds.ds, b.t), r |-> b.r]
Built == Build(pre).t
====
