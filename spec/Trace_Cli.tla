---- MODULE Trace_Cli ----
\* C13 / C14 at the level of the gram binary: one event per process launch.
\*   determinism (C13): every launch of the same command on the same file gives the same exit status, stdout and stderr
\*   outcome contract (C14): exit 0 with the result on stdout and nothing on stderr, or exit 1 with nothing on stdout and at
\*   least one [Error] diagnostic on stderr (for `run`, the run-time message "Evaluation of ... is stuck!" counts: it is the
\*   legitimate division-by-zero ending and carries no [Error] tag); no other exit status (a panic exits with 101, a signal
\*   is reported as a negative status), unless the specification confirms the program diverges.
EXTENDS Naturals, Integers, Sequences, FiniteSets, TLC, Json, IOUtils
Rec == ndJsonDeserialize(IOEnv.TRACE)
VARIABLES l, seen
Bad(what) == Print(<<"TRACE-REJECT", l, what>>, TRUE)
Obs(e) == [exit |-> e.exit, out |-> e.out, err |-> e.err]
Contract(e) ==
  \/ e.exit = 0 /\ e.outlen > 0 /\ e.errlen = 0
  \/ e.exit = 1 /\ e.outlen = 0 /\ e.errlen > 0 /\ (e.nerr >= 1 \/ (e.cmd = "run" /\ e.stuck))
  \/ e.divergent /\ e.exit \notin {0, 1}                      \* stack exhaustion / time limit on a program that diverges by itself
CliEv(e) ==
  /\ IF \E s \in seen : s.file = e.file /\ s.cmd = e.cmd /\ s.obs # Obs(e) THEN Bad(<<"C13", "two launches of the same command on the same file differ", e.file, e.cmd>>) ELSE TRUE
  /\ IF Contract(e) THEN TRUE ELSE Bad(<<"C14", "outcome contract violated", e.file, e.cmd, "exit", e.exit, "stdout", e.outlen, "stderr", e.errlen, "errors", e.nerr>>)
  /\ seen' = seen \cup {[file |-> e.file, cmd |-> e.cmd, obs |-> Obs(e)]}
TInit == l = 1 /\ seen = {}
TNext == l <= Len(Rec) /\ l' = l + 1 /\ (IF Rec[l].ev = "cli" THEN CliEv(Rec[l]) ELSE (Bad(<<"tool", "unknown event">>) /\ seen' = seen))
TSpec == TInit /\ [][TNext]_<<l, seen>>
TraceAccepted == IF TLCGet("stats").diameter - 1 = Len(Rec) THEN TRUE ELSE Print(<<"TRACE-STOPPED-AT", TLCGet("stats").diameter>>, FALSE)
====
