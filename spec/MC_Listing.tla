---- MODULE MC_Listing ----
\* all texts of <= MaxLines lines x <= MaxChars characters over Chars, every range on character boundaries that a diagnostic can carry (Reportable)
EXTENDS GramListing, Json
CharsQ == {X, E, S}
CharsT == {X, E, S, T3, R4}
CharsW == {X, S, T3}
CONSTANTS MaxLines, MaxChars, Chars
\* ---- generator
VARIABLES txt, done
Init == txt = << <<>> >> /\ done = FALSE
Next == /\ ~done
        /\ \/ \E c \in Chars : Len(txt[Len(txt)]) < MaxChars /\ txt' = [txt EXCEPT ![Len(txt)] = Append(@, c)] /\ done' = FALSE
           \/ Len(txt) < MaxLines /\ txt' = Append(txt, <<>>) /\ done' = FALSE
           \/ txt' = txt /\ done' = TRUE
Ids(t) == [i \in 1..Len(t) |-> [c \in 1..Len(t[i]) |-> t[i][c].id]]
SetToSeq(S0) == LET RECURSIVE f(_) f(T) == IF T = {} THEN <<>> ELSE LET m == CHOOSE x \in T : \A y \in T : x <= y IN <<m>> \o f(T \ {m}) IN f(S0)
Emit == done => \A s \in Boundaries(txt) : \A e \in Boundaries(txt) : (s <= e /\ Reportable(txt, s, e)) =>
          LET ex == Expect(txt, s, e) IN
          PrintT(<<"LIST", ToJson([t |-> Ids(txt), s |-> s, e |-> e,
                   lines |-> SetToSeq(DOMAIN ex),
                   must |-> [k \in 1..Cardinality(DOMAIN ex) |-> SetToSeq(ex[SetToSeq(DOMAIN ex)[k]].must)],
                   may |-> [k \in 1..Cardinality(DOMAIN ex) |-> SetToSeq(ex[SetToSeq(DOMAIN ex)[k]].may)]])>>)
====
