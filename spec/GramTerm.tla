---- MODULE GramTerm ----
\* De Bruijn terms of gram as records (= the JSON shape logged by the harness), index shifting,
\* opening (substitution) and free variables.  Anchors: src/term.rs Variant, src/de_bruijn.rs
\* signed_shift / unsigned_shift / open, src/term.rs free_variables.
\*
\*   [k |-> "type"|"int"|"bool"|"true"|"false"]      [k |-> "var", i, n]     [k |-> "lit", v |-> [s, m]]
\*   [k |-> "lam"|"pi", n, imp, a, b]                 [k |-> "app", a, b]     [k |-> "neg", a]
\*   [k |-> "bin", op, a, b]   op \in sum diff prod quot lt le eq gt ge        [k |-> "if", c, a, b]
\*   [k |-> "let", defs |-> <<[n, ann, def], ...>>, b]                        [k |-> "hole", id, sh]
\* Definition j (1-based) of an n-definition group has index n - j inside the group.
EXTENDS Naturals, Integers, Sequences, FiniteSets, TLC, GramInt

TType == [k |-> "type"]
TInt == [k |-> "int"]
TBool == [k |-> "bool"]
TTrue == [k |-> "true"]
TFalse == [k |-> "false"]
Var(i) == [k |-> "var", i |-> i, n |-> "?"]
Lit(v) == [k |-> "lit", v |-> v]
App(f, x) == [k |-> "app", a |-> f, b |-> x]
Bin(op, x, y) == [k |-> "bin", op |-> op, a |-> x, b |-> y]
NegT(x) == [k |-> "neg", a |-> x]
IfT(c, x, y) == [k |-> "if", c |-> c, a |-> x, b |-> y]
LetT(defs, b) == [k |-> "let", defs |-> defs, b |-> b]
Binder(k, n, imp, a, b) == [k |-> k, n |-> n, imp |-> imp, a |-> a, b |-> b]
Hole(id, sh) == [k |-> "hole", id |-> id, sh |-> sh]

Leafs == {"type","int","bool","true","false","lit","hole"}
Arith == {"sum","diff","prod","quot"}
CmpOps == {"lt","le","eq","gt","ge"}
AllOps == Arith \cup CmpOps

\* TLC keeps [j \in 1..n |-> e] as an unevaluated closure and re-evaluates e on every application; SubSeq
\* turns it into an explicit tuple (each element evaluated once).  Used wherever a sequence is built pointwise.
Mat(f, n) == SubSeq(f, 1, n)

RECURSIVE Size(_)
Size(t) ==
  CASE t.k \in {"lam","pi","app","bin"} -> 1 + Size(t.a) + Size(t.b)
    [] t.k = "neg" -> 1 + Size(t.a)
    [] t.k = "if" -> 1 + Size(t.c) + Size(t.a) + Size(t.b)
    [] t.k = "let" -> LET RECURSIVE s(_) s(j) == IF j > Len(t.defs) THEN 0 ELSE Size(t.defs[j].ann) + Size(t.defs[j].def) + s(j+1)
                      IN 1 + Size(t.b) + s(1)
    [] OTHER -> 1

\* ---------- shifting: add d to every index >= c; the cutoff grows by the number of binders crossed.
\* Partial: fails when an index >= c would drop below c (a variable would become unbound / captured).
Fail == [ok |-> FALSE]
Ok(t) == [ok |-> TRUE, t |-> t]
RECURSIVE Shift(_,_,_)
Shift(t, c, d) ==
  CASE t.k = "var" -> IF t.i >= c THEN (IF t.i + d >= c THEN Ok([t EXCEPT !.i = t.i + d]) ELSE Fail) ELSE Ok(t)
    [] t.k = "hole" -> IF t.sh >= c THEN (IF t.sh + d >= c THEN Ok([t EXCEPT !.sh = t.sh + d]) ELSE Fail) ELSE Ok(t)
    [] t.k \in Leafs -> Ok(t)
    [] t.k \in {"lam","pi"} -> LET a == Shift(t.a, c, d) b == Shift(t.b, c+1, d) IN IF a.ok /\ b.ok THEN Ok([t EXCEPT !.a = a.t, !.b = b.t]) ELSE Fail
    [] t.k \in {"app","bin"} -> LET a == Shift(t.a, c, d) b == Shift(t.b, c, d) IN IF a.ok /\ b.ok THEN Ok([t EXCEPT !.a = a.t, !.b = b.t]) ELSE Fail
    [] t.k = "neg" -> LET a == Shift(t.a, c, d) IN IF a.ok THEN Ok([t EXCEPT !.a = a.t]) ELSE Fail
    [] t.k = "if" -> LET x == Shift(t.c, c, d) a == Shift(t.a, c, d) b == Shift(t.b, c, d) IN IF x.ok /\ a.ok /\ b.ok THEN Ok([t EXCEPT !.c = x.t, !.a = a.t, !.b = b.t]) ELSE Fail
    [] t.k = "let" -> LET n == Len(t.defs)
                          an == Mat([i \in 1..n |-> Shift(t.defs[i].ann, c+n, d)], n)
                          df == Mat([i \in 1..n |-> Shift(t.defs[i].def, c+n, d)], n)
                          b == Shift(t.b, c+n, d)
                      IN IF b.ok /\ \A i \in 1..n : an[i].ok /\ df[i].ok
                         THEN Ok([t EXCEPT !.defs = Mat([i \in 1..n |-> [t.defs[i] EXCEPT !.ann = an[i].t, !.def = df[i].t]], n), !.b = b.t]) ELSE Fail
Up(t, c, d) == IF d = 0 THEN t ELSE Shift(t, c, d).t

\* ---------- opening: replace index i by u (raised by s plus the binders crossed), lower the indices above i
RECURSIVE Open(_,_,_,_)
Open(t, i, u, s) ==
  CASE t.k = "var" -> IF t.i = i THEN Up(u, 0, s) ELSE IF t.i > i THEN [t EXCEPT !.i = t.i - 1] ELSE t
    [] t.k = "hole" -> IF t.sh > i THEN [t EXCEPT !.sh = t.sh - 1] ELSE t
    [] t.k \in Leafs -> t
    [] t.k \in {"lam","pi"} -> [t EXCEPT !.a = Open(t.a, i, u, s), !.b = Open(t.b, i+1, u, s+1)]
    [] t.k \in {"app","bin"} -> [t EXCEPT !.a = Open(t.a, i, u, s), !.b = Open(t.b, i, u, s)]
    [] t.k = "neg" -> [t EXCEPT !.a = Open(t.a, i, u, s)]
    [] t.k = "if" -> [t EXCEPT !.c = Open(t.c, i, u, s), !.a = Open(t.a, i, u, s), !.b = Open(t.b, i, u, s)]
    [] t.k = "let" -> LET n == Len(t.defs) IN
         [t EXCEPT !.defs = Mat([j \in 1..n |-> [t.defs[j] EXCEPT !.ann = Open(t.defs[j].ann, i+n, u, s+n), !.def = Open(t.defs[j].def, i+n, u, s+n)]], n),
                   !.b = Open(t.b, i+n, u, s+n)]

\* ---------- free variables relative to a cutoff (index - cutoff for every index >= cutoff)
RECURSIVE FV(_,_)
FV(t, c) ==
  CASE t.k = "var" -> IF t.i >= c THEN {t.i - c} ELSE {}
    [] t.k \in {"lam","pi"} -> FV(t.a, c) \cup FV(t.b, c+1)
    [] t.k \in {"app","bin"} -> FV(t.a, c) \cup FV(t.b, c)
    [] t.k = "neg" -> FV(t.a, c)
    [] t.k = "if" -> FV(t.c, c) \cup FV(t.a, c) \cup FV(t.b, c)
    [] t.k = "let" -> LET n == Len(t.defs) IN FV(t.b, c+n) \cup UNION { FV(t.defs[j].ann, c+n) \cup FV(t.defs[j].def, c+n) : j \in 1..n }
    [] OTHER -> {}

RECURSIVE HasHole(_)
HasHole(t) == CASE t.k = "hole" -> TRUE
   [] t.k \in {"lam","pi","app","bin"} -> HasHole(t.a) \/ HasHole(t.b)
   [] t.k = "neg" -> HasHole(t.a)
   [] t.k = "if" -> HasHole(t.c) \/ HasHole(t.a) \/ HasHole(t.b)
   [] t.k = "let" -> HasHole(t.b) \/ \E j \in 1..Len(t.defs) : HasHole(t.defs[j].ann) \/ HasHole(t.defs[j].def)
   [] OTHER -> FALSE

\* ---------- syntactic identity modulo names and lambda annotations (src/equality.rs)
RECURSIVE Same(_,_)
Same(x, y) ==
  /\ x.k = y.k
  /\ CASE x.k = "var" -> x.i = y.i
       [] x.k = "hole" -> x.id = y.id /\ x.sh = y.sh
       [] x.k = "lit" -> x.v = y.v
       [] x.k = "lam" -> x.imp = y.imp /\ Same(x.b, y.b)
       [] x.k = "pi" -> x.imp = y.imp /\ Same(x.a, y.a) /\ Same(x.b, y.b)
       [] x.k = "app" -> Same(x.a, y.a) /\ Same(x.b, y.b)
       [] x.k = "bin" -> x.op = y.op /\ Same(x.a, y.a) /\ Same(x.b, y.b)
       [] x.k = "neg" -> Same(x.a, y.a)
       [] x.k = "if" -> Same(x.c, y.c) /\ Same(x.a, y.a) /\ Same(x.b, y.b)
       [] x.k = "let" -> Len(x.defs) = Len(y.defs) /\ (\A j \in 1..Len(x.defs) : Same(x.defs[j].def, y.defs[j].def)) /\ Same(x.b, y.b)
       [] OTHER -> TRUE

\* identity modulo names only (annotations compared): what "the same term" means for shift/open/parse results
RECURSIVE Ident(_,_)
Ident(x, y) ==
  /\ x.k = y.k
  /\ CASE x.k = "var" -> x.i = y.i
       [] x.k = "hole" -> x.id = y.id /\ x.sh = y.sh
       [] x.k = "lit" -> x.v = y.v
       [] x.k \in {"lam","pi"} -> x.imp = y.imp /\ Ident(x.a, y.a) /\ Ident(x.b, y.b)
       [] x.k = "app" -> Ident(x.a, y.a) /\ Ident(x.b, y.b)
       [] x.k = "bin" -> x.op = y.op /\ Ident(x.a, y.a) /\ Ident(x.b, y.b)
       [] x.k = "neg" -> Ident(x.a, y.a)
       [] x.k = "if" -> Ident(x.c, y.c) /\ Ident(x.a, y.a) /\ Ident(x.b, y.b)
       [] x.k = "let" -> Len(x.defs) = Len(y.defs) /\ (\A j \in 1..Len(x.defs) : Ident(x.defs[j].ann, y.defs[j].ann) /\ Ident(x.defs[j].def, y.defs[j].def)) /\ Ident(x.b, y.b)
       [] OTHER -> TRUE
====
