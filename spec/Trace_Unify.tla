---- MODULE Trace_Unify ----
\* Direction B for C12 (and the unifier part of C06): every recorded call of the real unify is judged by the predicates of
\* GramUnify -- never by equality with a model of the algorithm.
EXTENDS GramUnify, Json, IOUtils
Rec == ndJsonDeserialize(IOEnv.TRACE)
VARIABLE l
Bad(what) == Print(<<"TRACE-REJECT", l, what>>, TRUE)
\* two calls in a row on shared holes.  The statement is about one call: each call is judged with the store as it was when
\* that call returned.  That the FIRST pair is still equal after the second call solved more holes is not demanded by the
\* statement; when it is not (a solution carried an unsolved hole out of a binder, and the hole was later solved by the
\* bound variable) a NOTE is printed and counted, never a rejection.
Judge(a, b, st, e) ==
  IF ~Acyclic(a, b, st) THEN Bad(<<"C12", "a hole is solved by a term containing itself", e.kind>>)
  ELSE IF ~ScopeSafe(a, b, st, 0) THEN Bad(<<"C12", "a solution mentions a variable that is not in scope where its hole was written", e.kind>>)
  ELSE IF ~Consistent(a, b, st, <<>>) THEN
       Bad(<<"C12", "success, but filling the holes does not make the terms equal", e.kind, "holes_opened", e.holes_opened,
             "modulo_unsolved", ConsistentModuloUnsolved(a, b, st, <<>>)>>)
  ELSE TRUE
TwoStepEv(e) ==
  IF "panic" \in DOMAIN e THEN Bad(<<"C14", "unify panicked">>)
  ELSE /\ (e.res => Judge(e.a, e.b, e.store1, e))
       /\ (e.res2 => Judge(e.a2, e.b2, e.store, e))
       /\ (IF e.kind = "again" /\ e.res /\ ~e.res2 THEN Bad(<<"C12", "a unification that succeeded is not confirmed when it is repeated on the same terms (the solved holes are read back differently)", e.kind>>) ELSE TRUE)
       /\ ((e.res /\ e.res2 /\ Acyclic(e.a, e.b, e.store) /\ ~Consistent(e.a, e.b, e.store, <<>>)) => Print(<<"TRACE-NOTE", l, "chain: first pair no longer equal after the second call">>, TRUE))
\* the clauses are judged independently (an observation may break several statements; every check filters by its own tag)
UnifyEv(e) ==
  IF "panic" \in DOMAIN e THEN Bad(<<"C14", "unify panicked">>)
  ELSE
  /\ IF e.ctx_after # 0 THEN Bad(<<"C18", "the definitions context was not restored">>) ELSE TRUE
  /\ IF e.res /\ e.kind = "conv-no" THEN Bad(<<"C06", "terms with different normal forms are judged equal", "swap", e.swap>>) ELSE TRUE
  /\ IF ~e.res /\ e.kind = "conv-yes" THEN Bad(<<"C06", "terms with the same normal form are judged different", "swap", e.swap>>) ELSE TRUE
  /\ IF e.res THEN Judge(e.a, e.b, e.store, e)
     ELSE IF e.kind = "reduct" THEN Bad(<<"C12", "a hole-free term does not unify with itself / its reduct">>)
     ELSE TRUE
TInit == l = 1
TNext == l <= Len(Rec) /\ l' = l + 1 /\ (IF Rec[l].ev = "unify" THEN UnifyEv(Rec[l]) ELSE IF Rec[l].ev = "unify2" THEN TwoStepEv(Rec[l]) ELSE Bad(<<"tool", "unknown event">>))
TSpec == TInit /\ [][TNext]_l
TraceAccepted == IF TLCGet("stats").diameter - 1 = Len(Rec) THEN TRUE ELSE Print(<<"TRACE-STOPPED-AT", TLCGet("stats").diameter>>, FALSE)
====
