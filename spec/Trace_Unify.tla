---- MODULE Trace_Unify ----
\* Direction B for C12 (and the unifier part of C06): every recorded call of the real unify is judged by the predicates of
\* GramUnify -- never by equality with a model of the algorithm.
EXTENDS GramUnify, Json, IOUtils
Rec == ndJsonDeserialize(IOEnv.TRACE)
VARIABLE l
Bad(what) == Print(<<"TRACE-REJECT", l, what>>, TRUE)
UnifyEv(e) ==
  IF "panic" \in DOMAIN e THEN Bad(<<"C14", "unify panicked">>)
  ELSE IF e.ctx_after # 0 THEN Bad(<<"C18", "the definitions context was not restored">>)
  ELSE IF e.res /\ e.kind = "conv-no" THEN Bad(<<"C06", "terms with different normal forms are judged equal", "swap", e.swap>>)
  ELSE IF e.res THEN
     (IF ~Acyclic(e.a, e.b, e.store) THEN Bad(<<"C12", "a hole is solved by a term containing itself", e.kind>>)
      ELSE IF ~ScopeSafe(e.a, e.b, e.store, 0) THEN Bad(<<"C12", "a solution mentions a variable that is not in scope where its hole was written", e.kind>>)
      ELSE IF ~Consistent(e.a, e.b, e.store, <<>>) THEN
           Bad(<<"C12", "success, but filling the holes does not make the terms equal", e.kind, "holes_opened", e.holes_opened,
                 "modulo_unsolved", ConsistentModuloUnsolved(e.a, e.b, e.store, <<>>)>>)
      ELSE TRUE)
  ELSE IF e.kind = "reduct" THEN Bad(<<"C12", "a hole-free term does not unify with itself / its reduct">>)
  ELSE IF e.kind = "conv-yes" THEN Bad(<<"C06", "terms with the same normal form are judged different", "swap", e.swap>>)
  ELSE TRUE
TInit == l = 1
TNext == l <= Len(Rec) /\ l' = l + 1 /\ (IF Rec[l].ev = "unify" THEN UnifyEv(Rec[l]) ELSE Bad(<<"tool", "unknown event">>))
TSpec == TInit /\ [][TNext]_l
TraceAccepted == IF TLCGet("stats").diameter - 1 = Len(Rec) THEN TRUE ELSE Print(<<"TRACE-STOPPED-AT", TLCGet("stats").diameter>>, FALSE)
====
