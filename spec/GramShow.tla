---- MODULE GramShow ----
\* C16, design level: the parenthesisation chosen by the printer (src/term.rs Display, group, annotation) is sufficient.
\* For every operand position the printer either prints the child bare or wraps it with `group` (everything except
\* atoms gets parentheses); the grammar (categories of GramUnparse) says which children NEED parentheses there.
\* ShowValid(t): wherever the grammar requires parentheses, the printer writes them.  The one deliberate deviation of the
\* code is named: an implicit non-dependent function type is printed `{A} -> B`, which no production of grammar.y derives
\* (pinned by a unit test; recorded finding).
EXTENDS GramUnparse
Atomic(t) == Native(t) = 1
\* how the printer treats a child: "group" (parentheses unless atomic), "bare", "annotation" (parentheses iff a group of
\* definitions), "body" (parentheses iff a group of definitions), "domain" (bare if an application, else group)
Treatment(parent, pos) ==
  CASE parent.k = "app" /\ pos = "a" -> IF parent.a.k = "app" THEN "bare" ELSE "group"
    [] parent.k = "app" /\ pos = "b" -> "group"
    [] parent.k \in {"bin", "neg"} -> "group"
    [] parent.k \in {"lam", "pi"} /\ pos = "a" -> "annotation"
    [] parent.k \in {"lam", "pi"} /\ pos = "b" -> "bare"
    [] parent.k = "ndpi" /\ pos = "a" -> "domain"
    [] parent.k = "ndpi" /\ pos = "b" -> "bare"
    [] parent.k = "if" -> "bare"
    [] parent.k = "let" /\ pos \in {"a", "d"} -> "group"
    [] parent.k = "let" /\ pos = "b" -> "body"
Shown(parent, pos, child) ==
  LET tr == Treatment(parent, pos) IN
  CASE tr = "group" -> ~Atomic(child)
    [] tr = "bare" -> FALSE
    [] tr \in {"annotation", "body"} -> child.k = "let"
    [] tr = "domain" -> child.k # "app" /\ ~Atomic(child)
\* the category the grammar demands at each position (as in GramUnparse!Body)
Req(parent, pos) ==
  CASE parent.k = "app" -> IF pos = "a" THEN 2 ELSE 1
    [] parent.k = "neg" -> 4
    [] parent.k = "bin" /\ parent.op \in {"prod", "quot"} -> IF pos = "a" THEN 3 ELSE 2
    [] parent.k = "bin" /\ parent.op \in {"sum", "diff"} -> IF pos = "a" THEN 5 ELSE 4
    [] parent.k = "bin" -> 5
    [] parent.k \in {"lam", "pi"} -> IF pos = "a" THEN 7 ELSE 8
    [] parent.k = "ndpi" -> IF pos = "a" THEN 2 ELSE 8
    [] parent.k = "if" -> 8
    [] parent.k = "let" -> IF pos = "a" THEN 2 ELSE 8
\* a let in body position without parentheses would JOIN the group: that changes the tree, so it needs parentheses too
Needs(parent, pos, child) == Native(child) > Req(parent, pos) \/ (parent.k = "let" /\ pos = "b" /\ child.k = "let")
Kids(t) == CASE t.k \in {"app", "bin", "ndpi"} -> {<<"a", t.a>>, <<"b", t.b>>}
             [] t.k = "neg" -> {<<"a", t.a>>}
             [] t.k \in {"lam", "pi"} -> IF t.ann THEN {<<"a", t.a>>, <<"b", t.b>>} ELSE {<<"b", t.b>>}
             [] t.k = "if" -> {<<"c", t.c>>, <<"a", t.a>>, <<"b", t.b>>}
             [] t.k = "let" -> IF t.ann THEN {<<"a", t.a>>, <<"d", t.d>>, <<"b", t.b>>} ELSE {<<"d", t.d>>, <<"b", t.b>>}
             [] OTHER -> {}
RECURSIVE ShowValid(_)
ShowValid(t) == \A kid \in Kids(t) : (Needs(t, kid[1], kid[2]) => Shown(t, kid[1], kid[2])) /\ ShowValid(kid[2])
\* the printer never drops parentheses that change nothing but are harmless: over-parenthesisation is allowed
====
