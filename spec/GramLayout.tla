---- MODULE GramLayout ----
\* C10: the one-sentence layout rule, and the meaning-preserving re-layouts, stated on the specification.
\* Rule: a line-break terminator sits in the gap between two significant tokens a, b  iff  the gap contains a
\* line break, a can end an expression and b can start one (`;` counts as both); never at the start or end of input.
EXTENDS GramLexer
Sig(toks) == SelectSeq(toks, LAMBDA t : t.k # "NLTERM")
\* projection that ignores byte ranges and the kind of terminator
Proj(toks) == [i \in 1..Len(toks) |-> [k |-> IF toks[i].k = "NLTERM" THEN "TERMINATOR" ELSE toks[i].k, v |-> toks[i].v]]
HasNlBetween(text, s, e) == \E i \in 1..Len(text) : text[i].cls = "nl" /\ s <= Offset(text, i) /\ Offset(text, i) < e
RuleTerminators(text, toks) ==
  LET sg == Sig(toks) IN
  { g \in 1..(Len(sg) - 1) : HasNlBetween(text, sg[g].e, sg[g+1].s) /\ sg[g].k \in EndsExpr /\ sg[g+1].k \in StartsExpr }
\* gaps (index of the significant token before the gap) in which the tokenization has a line-break terminator
ActualTerminators(toks) ==
  LET sg == Sig(toks) IN
  { g \in 1..(Len(sg) - 1) : \E t \in 1..Len(toks) : toks[t].k = "NLTERM" /\ sg[g].e <= toks[t].s /\ toks[t].e <= sg[g+1].s }
LayoutRule(text, res) == res.ok =>
  /\ ActualTerminators(res.toks) = RuleTerminators(text, res.toks)
  /\ Cardinality({ t \in 1..Len(res.toks) : res.toks[t].k = "NLTERM" }) = Cardinality(RuleTerminators(text, res.toks))   \* at most one per gap, none outside gaps

\* ---- re-layouts -------------------------------------------------------------------------------------
SP == [id |-> "sp", w |-> 1, cls |-> "ws", gb |-> TRUE]
NL == [id |-> "nl", w |-> 1, cls |-> "nl", gb |-> TRUE]
SEMI == [id |-> ";", w |-> 1, cls |-> "sym", gb |-> TRUE]
RECURSIVE KeepIdx(_,_,_)
\* characters of text at the indices in `keep`, in order
KeepIdx(text, keep, i) == IF i > Len(text) THEN <<>> ELSE (IF i \in keep THEN <<text[i]>> ELSE <<>>) \o KeepIdx(text, keep, i + 1)
DropComments(text) == KeepIdx(text, { i \in 1..Len(text) : ~IsCommentChar(text, i) }, 1)
\* every comment replaced by nothing must behave like "that line ending": the comment's line break stays
RECURSIVE DoubleNl(_,_)
DoubleNl(text, i) == IF i > Len(text) THEN <<>> ELSE (IF text[i].cls = "nl" THEN <<text[i], NL>> ELSE <<text[i]>>) \o DoubleNl(text, i + 1)
RECURSIVE PadBlanks(_,_)
\* a blank after every blank (one blank -> two): indentation and spacing changes
PadBlanks(text, i) == IF i > Len(text) THEN <<>> ELSE (IF text[i].cls = "ws" THEN <<text[i], SP>> ELSE <<text[i]>>) \o PadBlanks(text, i + 1)
\* the first character of a re-laid-out text starts a grapheme cluster; only used on texts without extenders
SameTokens(a, b) == (a.ok <=> b.ok) /\ (a.ok => Proj(a.toks) = Proj(b.toks))
\* a separating line break is interchangeable with `;`
NlToSemi(text, off) == [i \in 1..Len(text) |-> IF Offset(text, i) = off THEN SEMI ELSE text[i]]
EndsComment(text, i) == \E j \in 1..(i-1) : text[j].cls = "hash" /\ \A q \in j..(i-1) : text[q].cls # "nl"
\* (`;` counts as both an end and a start of an expression, so a further line break next to it is a second terminator:
\*  the interchange is stated for gaps with a single line break)
OnlyNlInGap(text, toks, t) == Cardinality({ i \in 1..Len(text) : text[i].cls = "nl" /\ toks[t-1].e <= Offset(text, i) /\ Offset(text, i) < toks[t+1].s }) = 1
Relayouts(text) ==
  LET r == Lex(text) IN
  /\ SameTokens(r, Lex(DropComments(text)))
  /\ SameTokens(r, Lex(DoubleNl(text, 1)))
  /\ SameTokens(r, Lex(PadBlanks(text, 1)))
  \* (a line break that ends a comment cannot be replaced in place: the `;` would be part of the comment)
  /\ r.ok => \A t \in 1..Len(r.toks) : (r.toks[t].k = "NLTERM" /\ ~EndsComment(text, CharAt(text, r.toks[t].s)) /\ OnlyNlInGap(text, r.toks, t)) => SameTokens(r, Lex(NlToSemi(text, r.toks[t].s)))
====
