---- MODULE GramTyping ----
\* An independent checker for explicitly typed terms: the standard rules of the calculus (type : type).
\*   Infer(t, ctx, fuel) \in [r |-> "ok", ty, f] | [r |-> "ill", why] | [r |-> "fuel"]
\* Unresolved holes are opaque: a hole has an unknown type and is convertible with anything (the most permissive
\* reading; used only to judge elaborations that still contain holes).
EXTENDS GramNorm
TOk(ty, f) == [r |-> "ok", ty |-> ty, f |-> f]
Ill(why) == [r |-> "ill", why |-> why]
Fuel == [r |-> "fuel"]
Unknown == Hole(0, 0)
\* conversion that lets an unknown stand for anything
RECURSIVE ConvH(_,_,_,_)
ConvH(x, y, ctx, f) ==
  IF x.k = "hole" \/ y.k = "hole" THEN CR("yes", f) ELSE
  IF ~HasHole(x) /\ ~HasHole(y) THEN Conv(x, y, ctx, f) ELSE
  IF Same(x, y) THEN CR("yes", f) ELSE
  LET wx == Whnf(x, ctx, f) IN IF ~wx.ok THEN CR("fuel", 0) ELSE
  LET wy == Whnf(y, ctx, wx.f) IN IF ~wy.ok THEN CR("fuel", 0) ELSE
  LET a == wx.t b == wy.t g == wy.f IN
  IF a.k = "hole" \/ b.k = "hole" THEN CR("yes", g) ELSE
  IF a.k # b.k THEN CR("no", g) ELSE
  CASE a.k = "var" -> CR(IF a.i = b.i THEN "yes" ELSE "no", g)
    [] a.k = "lit" -> CR(IF a.v = b.v THEN "yes" ELSE "no", g)
    [] a.k = "lam" -> IF a.imp # b.imp THEN CR("no", g) ELSE ConvH(a.b, b.b, PushParam(ctx, a.a), g)
    [] a.k = "pi" -> IF a.imp # b.imp THEN CR("no", g) ELSE
                     LET c1 == ConvH(a.a, b.a, ctx, g) IN IF c1.r # "yes" THEN c1 ELSE ConvH(a.b, b.b, PushParam(ctx, a.a), c1.f)
    [] a.k = "app" -> LET c1 == ConvH(a.a, b.a, ctx, g) IN IF c1.r # "yes" THEN c1 ELSE ConvH(a.b, b.b, ctx, c1.f)
    [] a.k = "bin" -> IF a.op # b.op THEN CR("no", g) ELSE LET c1 == ConvH(a.a, b.a, ctx, g) IN IF c1.r # "yes" THEN c1 ELSE ConvH(a.b, b.b, ctx, c1.f)
    [] a.k = "neg" -> ConvH(a.a, b.a, ctx, g)
    [] a.k = "if" -> LET c1 == ConvH(a.c, b.c, ctx, g) IN IF c1.r # "yes" THEN c1 ELSE
                     LET c2 == ConvH(a.a, b.a, ctx, c1.f) IN IF c2.r # "yes" THEN c2 ELSE ConvH(a.b, b.b, ctx, c2.f)
    [] OTHER -> CR("yes", g)
Expect(tx, want, ctx, f, why) == LET c == ConvH(tx, want, ctx, f) IN IF c.r = "yes" THEN TOk(want, c.f) ELSE IF c.r = "fuel" THEN Fuel ELSE Ill(why)

RECURSIVE Infer(_,_,_)
Infer(t, ctx, f) ==
  IF f = 0 THEN Fuel ELSE
  CASE t.k \in {"type","int","bool"} -> TOk(TType, f)
    [] t.k = "hole" -> TOk(Unknown, f)
    [] t.k = "var" -> IF t.i >= Len(ctx) THEN Ill("unbound variable") ELSE TOk(EntryTy(ctx, t.i), f)
    [] t.k = "lit" -> TOk(TInt, f)
    [] t.k \in {"true","false"} -> TOk(TBool, f)
    [] t.k = "lam" -> LET ia == Infer(t.a, ctx, f - 1) IN IF ia.r # "ok" THEN ia ELSE
                      LET ea == Expect(ia.ty, TType, ctx, ia.f, "domain is not a type") IN IF ea.r # "ok" THEN ea ELSE
                      LET ib == Infer(t.b, PushParam(ctx, t.a), ea.f) IN IF ib.r # "ok" THEN ib ELSE
                      TOk(Binder("pi", t.n, t.imp, t.a, ib.ty), ib.f)
    [] t.k = "pi" -> LET ia == Infer(t.a, ctx, f - 1) IN IF ia.r # "ok" THEN ia ELSE
                     LET ea == Expect(ia.ty, TType, ctx, ia.f, "domain is not a type") IN IF ea.r # "ok" THEN ea ELSE
                     LET ib == Infer(t.b, PushParam(ctx, t.a), ea.f) IN IF ib.r # "ok" THEN ib ELSE
                     LET eb == Expect(ib.ty, TType, PushParam(ctx, t.a), ib.f, "codomain is not a type") IN IF eb.r # "ok" THEN eb ELSE TOk(TType, eb.f)
    [] t.k = "app" -> LET if_ == Infer(t.a, ctx, f - 1) IN IF if_.r # "ok" THEN if_ ELSE
                      LET wf == Whnf(if_.ty, ctx, if_.f) IN IF ~wf.ok THEN Fuel ELSE
                      IF wf.t.k = "hole" THEN (LET ix == Infer(t.b, ctx, wf.f) IN IF ix.r # "ok" THEN ix ELSE TOk(Unknown, ix.f)) ELSE
                      IF wf.t.k # "pi" THEN Ill("applicand is not a function") ELSE
                      LET ix == Infer(t.b, ctx, wf.f) IN IF ix.r # "ok" THEN ix ELSE
                      LET ex == Expect(ix.ty, wf.t.a, ctx, ix.f, "argument does not match the domain") IN IF ex.r # "ok" THEN ex ELSE
                      TOk(Open(wf.t.b, 0, t.b, 0), ex.f)
    [] t.k = "let" -> LET n == Len(t.defs) g == PushGroup(ctx, t.defs) IN
                      LET RECURSIVE chk(_,_)
                          chk(j, fl) == IF j > n THEN TOk(TType, fl) ELSE
                             LET ia == Infer(t.defs[j].ann, g, fl) IN IF ia.r # "ok" THEN ia ELSE
                             LET ea == Expect(ia.ty, TType, g, ia.f, "annotation is not a type") IN IF ea.r # "ok" THEN ea ELSE
                             LET id == Infer(t.defs[j].def, g, ea.f) IN IF id.r # "ok" THEN id ELSE
                             LET ed == Expect(id.ty, t.defs[j].ann, g, id.f, "definition does not have its annotated type") IN IF ed.r # "ok" THEN ed ELSE
                             chk(j + 1, ed.f)
                      IN LET cd == chk(1, f - 1) IN IF cd.r # "ok" THEN cd ELSE
                         LET ib == Infer(t.b, g, cd.f) IN IF ib.r # "ok" THEN ib ELSE
                         TOk(LetT(t.defs, ib.ty), ib.f)                        \* the group wrapped around the body's type: a term of the OUTER context
    [] t.k = "neg" -> LET ia == Infer(t.a, ctx, f - 1) IN IF ia.r # "ok" THEN ia ELSE
                      LET ea == Expect(ia.ty, TInt, ctx, ia.f, "operand is not an int") IN IF ea.r # "ok" THEN ea ELSE TOk(TInt, ea.f)
    [] t.k = "bin" -> LET ia == Infer(t.a, ctx, f - 1) IN IF ia.r # "ok" THEN ia ELSE
                      LET ea == Expect(ia.ty, TInt, ctx, ia.f, "left operand is not an int") IN IF ea.r # "ok" THEN ea ELSE
                      LET ib == Infer(t.b, ctx, ea.f) IN IF ib.r # "ok" THEN ib ELSE
                      LET eb == Expect(ib.ty, TInt, ctx, ib.f, "right operand is not an int") IN IF eb.r # "ok" THEN eb ELSE
                      TOk(IF t.op \in Arith THEN TInt ELSE TBool, eb.f)
    [] t.k = "if" -> LET ic == Infer(t.c, ctx, f - 1) IN IF ic.r # "ok" THEN ic ELSE
                     LET ec == Expect(ic.ty, TBool, ctx, ic.f, "condition is not a bool") IN IF ec.r # "ok" THEN ec ELSE
                     LET ia == Infer(t.a, ctx, ec.f) IN IF ia.r # "ok" THEN ia ELSE
                     LET ib == Infer(t.b, ctx, ia.f) IN IF ib.r # "ok" THEN ib ELSE
                     LET eb == Expect(ib.ty, ia.ty, ctx, ib.f, "branches have different types") IN IF eb.r # "ok" THEN eb ELSE TOk(ia.ty, eb.f)

\* ---- the definition-order rule (src/parser.rs check_definitions / check_definition), as designed:
\* every group everywhere in the program is checked; a definition that is not a syntactic value may reach, through
\* value definitions (which are always available), only definitions that come strictly before it.
Refs(defs, j) == { Len(defs) - v : v \in { w \in FV(defs[j].def, 0) : w < Len(defs) } }
RECURSIVE ReachVia(_,_,_)
ReachVia(defs, seen, frontier) ==
  IF frontier = {} THEN seen ELSE
  LET new == (UNION { Refs(defs, j) : j \in frontier }) \ seen
  IN ReachVia(defs, seen \cup new, { j \in new : IsValue(defs[j].def) })
GroupErrors(defs) == { <<s, j>> \in (1..Len(defs)) \X (1..Len(defs)) :
                         ~IsValue(defs[s].def) /\ j \in ReachVia(defs, {}, {s}) /\ ~IsValue(defs[j].def) /\ j >= s }
RECURSIVE DefOrderOK(_)
DefOrderOK(t) ==
  CASE t.k \in {"lam","pi","app","bin"} -> DefOrderOK(t.a) /\ DefOrderOK(t.b)
    [] t.k = "neg" -> DefOrderOK(t.a)
    [] t.k = "if" -> DefOrderOK(t.c) /\ DefOrderOK(t.a) /\ DefOrderOK(t.b)
    [] t.k = "let" -> GroupErrors(t.defs) = {} /\ DefOrderOK(t.b) /\ \A j \in 1..Len(t.defs) : DefOrderOK(t.defs[j].def) /\ DefOrderOK(t.defs[j].ann)
    [] OTHER -> TRUE

\* structure of the source preserved by elaboration: same formers in the same order, same implicitness, same
\* literals and indices; only source holes may be replaced (by anything)
RECURSIVE SameModuloHoles(_,_)
SameModuloHoles(src, el) ==
  IF src.k = "hole" THEN TRUE ELSE
  /\ src.k = el.k
  /\ CASE src.k = "var" -> src.i = el.i
       [] src.k = "lit" -> src.v = el.v
       [] src.k \in {"lam","pi"} -> src.imp = el.imp /\ SameModuloHoles(src.a, el.a) /\ SameModuloHoles(src.b, el.b)
       [] src.k = "app" -> SameModuloHoles(src.a, el.a) /\ SameModuloHoles(src.b, el.b)
       [] src.k = "bin" -> src.op = el.op /\ SameModuloHoles(src.a, el.a) /\ SameModuloHoles(src.b, el.b)
       [] src.k = "neg" -> SameModuloHoles(src.a, el.a)
       [] src.k = "if" -> SameModuloHoles(src.c, el.c) /\ SameModuloHoles(src.a, el.a) /\ SameModuloHoles(src.b, el.b)
       [] src.k = "let" -> Len(src.defs) = Len(el.defs) /\ SameModuloHoles(src.b, el.b)
                           /\ \A j \in 1..Len(src.defs) : SameModuloHoles(src.defs[j].ann, el.defs[j].ann) /\ SameModuloHoles(src.defs[j].def, el.defs[j].def)
       [] OTHER -> TRUE
====
