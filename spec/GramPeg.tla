---- MODULE GramPeg ----
\* The packrat parser of src/parser.rs as a specification: one clause per parsing function (36 memoised functions,
\* Nonterminal enum), ordered choice, the commit points after which a function no longer fails but records errors and
\* re-synchronises (expect_token: scan forward over balanced parentheses up to the wanted token, a terminator or the closing
\* parenthesis of the current group), the "confident" flag that suppresses follow-up errors, and the order in which syntax
\* errors are collected (collect_error_factories: children first, in textual order, then a node's own errors).
\*
\* A memo table M maps Key(nt, pos) to the stored result [ok, next, conf, ne]:
\*   ok   - the function produced a term (not a ParseError)     next - where it stopped
\*   conf - it is confident in `next`                           ne   - number of syntax errors the term carries
\* Body(M, toks, nt, pos) is what the function at (nt, pos) returns given the results of the functions it calls, looked up
\* in M: [ok, next, conf, own (its own errors), kids (keys whose errors it inherits, in collection order), used (every key
\* it looked at)].  The same Body serves (a) the dense table Table(toks) from which TLC proves PEG = CFG on bounded strings
\* (MC_Peg) and (b) trace validation of the real parser's memo table, entry by entry (Trace_Peg).
\* Positions are 0-based token indices as in the code; token i is toks[i + 1].
EXTENDS Naturals, Integers, Sequences, FiniteSets, TLC

Key(nt, pos) == nt \o "@" \o ToString(pos)
Tok(toks, i) == IF i < Len(toks) THEN toks[i + 1] ELSE "EOF"
Err(pos, exp) == [p |-> pos, e |-> exp, at |-> pos]
Missing(pos) == [ok |-> FALSE, next |-> pos, conf |-> FALSE, ne |-> 1]
Get(M, nt, pos) == IF Key(nt, pos) \in DOMAIN M THEN M[Key(nt, pos)] ELSE Missing(pos)

FailU(pos, exp, used) == [ok |-> FALSE, next |-> pos, conf |-> FALSE, own |-> <<Err(pos, exp)>>, kids |-> <<>>, used |-> used]
\* try_eval! on a failed callee: the callee's own error value is returned as this function's result
Propagate(r, k, used) == [ok |-> FALSE, next |-> r.next, conf |-> r.conf, own |-> <<>>, kids |-> <<k>>, used |-> used \cup {k}]

T(t) == [s |-> "tok", t |-> t]
Try(nt) == [s |-> "try", nt |-> nt]
Last(nt) == [s |-> "last", nt |-> nt]
Bin(l, op, r) == <<Try(l), T(op), Last(r)>>
Binder(open, close, arrow) == <<T(open), T("IDENTIFIER"), T("COLON"), Try("JumboTerm"), T(close), T(arrow), Last("Term")>>

\* functions that are a fixed sequence: consume_token (fail without consuming), try_eval (fail with the callee's error),
\* and a final unguarded call whose failure is kept inside the produced term
SeqOf ==
  [ Type |-> <<T("TYPE")>>, Variable |-> <<T("IDENTIFIER")>>, Integer |-> <<T("INTEGER")>>, IntegerLiteral |-> <<T("INTEGER_LITERAL")>>,
    Boolean |-> <<T("BOOLEAN")>>, True |-> <<T("TRUE")>>, False |-> <<T("FALSE")>>,
    Lambda |-> <<T("IDENTIFIER"), T("THICK_ARROW"), Last("Term")>>,
    LambdaImplicit |-> <<T("LEFT_CURLY"), T("IDENTIFIER"), T("RIGHT_CURLY"), T("THICK_ARROW"), Last("Term")>>,
    AnnotatedLambda |-> Binder("LEFT_PAREN", "RIGHT_PAREN", "THICK_ARROW"),
    AnnotatedLambdaImplicit |-> Binder("LEFT_CURLY", "RIGHT_CURLY", "THICK_ARROW"),
    Pi |-> Binder("LEFT_PAREN", "RIGHT_PAREN", "THIN_ARROW"),
    PiImplicit |-> Binder("LEFT_CURLY", "RIGHT_CURLY", "THIN_ARROW"),
    NonDependentPi |-> <<Try("SmallTerm"), T("THIN_ARROW"), Last("Term")>>,
    Application |-> <<Try("Atom"), Try("SmallTerm")>>,
    Negation |-> <<T("MINUS"), Last("LargeTerm")>>,
    Sum |-> Bin("LargeTerm", "PLUS", "HugeTerm"), Difference |-> Bin("LargeTerm", "MINUS", "HugeTerm"),
    Product |-> Bin("SmallTerm", "ASTERISK", "LargeTerm"), Quotient |-> Bin("SmallTerm", "SLASH", "LargeTerm"),
    LessThan |-> Bin("HugeTerm", "LESS_THAN", "HugeTerm"), LessThanOrEqualTo |-> Bin("HugeTerm", "LESS_THAN_OR_EQUAL", "HugeTerm"),
    EqualTo |-> Bin("HugeTerm", "DOUBLE_EQUALS", "HugeTerm"), GreaterThan |-> Bin("HugeTerm", "GREATER_THAN", "HugeTerm"),
    GreaterThanOrEqualTo |-> Bin("HugeTerm", "GREATER_THAN_OR_EQUAL", "HugeTerm") ]
\* functions that are an ordered choice (try_return!: the first alternative that produces a term wins)
AltOf ==
  [ Term |-> <<"Let", "JumboTerm">>,
    Atom |-> <<"Type", "Variable", "Integer", "IntegerLiteral", "Boolean", "True", "False", "Group">>,
    SmallTerm |-> <<"Application", "Atom">>, MediumTerm |-> <<"Product", "Quotient", "SmallTerm">>,
    LargeTerm |-> <<"Negation", "MediumTerm">>, HugeTerm |-> <<"Sum", "Difference", "LargeTerm">>,
    GiantTerm |-> <<"LessThan", "LessThanOrEqualTo", "EqualTo", "GreaterThan", "GreaterThanOrEqualTo", "HugeTerm">>,
    JumboTerm |-> <<"Lambda", "LambdaImplicit", "AnnotatedLambda", "AnnotatedLambdaImplicit", "Pi", "PiImplicit", "NonDependentPi", "If", "GiantTerm">> ]
\* callee-before-caller order of the functions at one position (there is no left recursion)
Order == <<"Type", "Variable", "Integer", "IntegerLiteral", "Boolean", "True", "False", "Group", "Atom", "Application", "SmallTerm",
           "Product", "Quotient", "MediumTerm", "Negation", "LargeTerm", "Sum", "Difference", "HugeTerm", "LessThan", "LessThanOrEqualTo",
           "EqualTo", "GreaterThan", "GreaterThanOrEqualTo", "GiantTerm", "Lambda", "LambdaImplicit", "AnnotatedLambda",
           "AnnotatedLambdaImplicit", "Pi", "PiImplicit", "NonDependentPi", "If", "JumboTerm", "Let", "Term">>
NTs == { Order[i] : i \in 1..Len(Order) }

RECURSIVE RunSeq(_,_,_,_,_)
RunSeq(M, toks, steps, i, st) ==
  IF i > Len(steps) THEN [ok |-> TRUE, next |-> st.pos, conf |-> st.conf, own |-> <<>>, kids |-> st.kids, used |-> st.used]
  ELSE LET s == steps[i] IN
    IF s.s = "tok" THEN
       IF Tok(toks, st.pos) = s.t THEN RunSeq(M, toks, steps, i + 1, [st EXCEPT !.pos = @ + 1, !.conf = TRUE])
       ELSE FailU(st.pos, s.t, st.used)
    ELSE LET k == Key(s.nt, st.pos)  r == Get(M, s.nt, st.pos) IN
       IF s.s = "try" /\ ~r.ok THEN Propagate(r, k, st.used)
       ELSE RunSeq(M, toks, steps, i + 1, [pos |-> r.next, conf |-> r.conf, kids |-> Append(st.kids, k), used |-> st.used \cup {k}])

RECURSIVE RunAlt(_,_,_,_,_)
RunAlt(M, alts, pos, i, used) ==
  IF i > Len(alts) THEN FailU(pos, "EXPR", used)
  ELSE LET k == Key(alts[i], pos)  r == Get(M, alts[i], pos) IN
    IF r.ok THEN [ok |-> TRUE, next |-> r.next, conf |-> r.conf, own |-> <<>>, kids |-> <<k>>, used |-> used \cup {k}]
    ELSE RunAlt(M, alts, pos, i + 1, used \cup {k})

\* expect_token_0! / expect_token_1!: where the scan for token t stops when started at i
RECURSIVE Scan(_,_,_,_)
Scan(toks, t, i, d) ==
  IF i >= Len(toks) THEN [found |-> FALSE, pos |-> i]
  ELSE LET c == toks[i + 1] IN
    IF c = t /\ d = 0 THEN [found |-> TRUE, pos |-> i + 1]
    ELSE IF c = "LEFT_PAREN" THEN Scan(toks, t, i + 1, d + 1)
    ELSE IF c = "RIGHT_PAREN" THEN (IF d > 0 THEN Scan(toks, t, i + 1, d - 1) ELSE [found |-> FALSE, pos |-> i])
    ELSE IF c = "TERMINATOR" /\ d = 0 THEN [found |-> FALSE, pos |-> i]
    ELSE Scan(toks, t, i + 1, d)
Expect(toks, t, pos, report) == [errs |-> IF report /\ Tok(toks, pos) # t THEN <<Err(pos, t)>> ELSE <<>>, sc |-> Scan(toks, t, pos, 0)]
Opt(c, k) == IF c THEN <<k>> ELSE <<>>
OptS(c, k) == IF c THEN {k} ELSE {}

LetBody(M, toks, start) ==
  IF Tok(toks, start) # "IDENTIFIER" THEN FailU(start, "IDENTIFIER", {})
  ELSE LET n1 == start + 1
           hasAnn == Tok(toks, n1) = "COLON"
           ak == Key("SmallTerm", n1 + 1)   ar == Get(M, "SmallTerm", n1 + 1)
       IN IF hasAnn /\ ~ar.ok THEN Propagate(ar, ak, {})
          ELSE IF ~hasAnn /\ Tok(toks, n1) # "EQUALS" THEN FailU(n1, "EQUALS", {})
          ELSE LET eq == IF hasAnn THEN Expect(toks, "EQUALS", ar.next, ar.conf) ELSE [errs |-> <<>>, sc |-> [found |-> TRUE, pos |-> n1 + 1]]
                   dF == eq.sc.found
                   dk == Key("Term", eq.sc.pos)   dr == Get(M, "Term", eq.sc.pos)
                   tm == Expect(toks, "TERMINATOR", IF dF THEN dr.next ELSE eq.sc.pos, IF dF THEN dr.conf ELSE FALSE)
                   bF == tm.sc.found
                   bk == Key("Term", tm.sc.pos)   br == Get(M, "Term", tm.sc.pos)
               IN [ok |-> TRUE, next |-> IF bF THEN br.next ELSE tm.sc.pos, conf |-> IF bF THEN br.conf ELSE FALSE,
                   own |-> eq.errs \o tm.errs,
                   kids |-> Opt(hasAnn, ak) \o Opt(dF, dk) \o Opt(bF, bk),
                   used |-> OptS(hasAnn, ak) \cup OptS(dF, dk) \cup OptS(bF, bk)]

IfBody(M, toks, start) ==
  IF Tok(toks, start) # "IF" THEN FailU(start, "IF", {})
  ELSE LET ck == Key("Term", start + 1)   cr == Get(M, "Term", start + 1)
           th == Expect(toks, "THEN", cr.next, cr.conf)
           tF == th.sc.found
           tk == Key("Term", th.sc.pos)   tr == Get(M, "Term", th.sc.pos)
           el == Expect(toks, "ELSE", IF tF THEN tr.next ELSE th.sc.pos, IF tF THEN tr.conf ELSE FALSE)
           eF == el.sc.found
           ek == Key("Term", el.sc.pos)   er == Get(M, "Term", el.sc.pos)
       IN [ok |-> TRUE, next |-> IF eF THEN er.next ELSE el.sc.pos, conf |-> IF eF THEN er.conf ELSE FALSE,
           own |-> th.errs \o el.errs,
           kids |-> <<ck>> \o Opt(tF, tk) \o Opt(eF, ek),
           used |-> {ck} \cup OptS(tF, tk) \cup OptS(eF, ek)]

GroupBody(M, toks, start) ==
  IF Tok(toks, start) # "LEFT_PAREN" THEN FailU(start, "LEFT_PAREN", {})
  ELSE LET tk == Key("Term", start + 1)   tr == Get(M, "Term", start + 1) IN
       IF ~tr.ok THEN Propagate(tr, tk, {})
       ELSE LET ex == Expect(toks, "RIGHT_PAREN", tr.next, tr.conf) IN
            [ok |-> TRUE, next |-> ex.sc.pos, conf |-> ex.sc.found,
             own |-> IF ex.sc.found THEN ex.errs ELSE <<[p |-> start, e |-> "UNCLOSED", at |-> ex.sc.pos]>>,
             kids |-> <<tk>>, used |-> {tk}]

Body(M, toks, nt, pos) ==
  IF nt = "Let" THEN LetBody(M, toks, pos)
  ELSE IF nt = "If" THEN IfBody(M, toks, pos)
  ELSE IF nt = "Group" THEN GroupBody(M, toks, pos)
  ELSE IF nt \in DOMAIN AltOf THEN RunAlt(M, AltOf[nt], pos, 1, {})
  ELSE RunSeq(M, toks, SeqOf[nt], 1, [pos |-> pos, conf |-> FALSE, kids |-> <<>>, used |-> {}])

RECURSIVE SumNe(_,_,_)
SumNe(M, ks, i) == IF i > Len(ks) THEN 0 ELSE M[ks[i]].ne + SumNe(M, ks, i + 1)
Stored(M, b) == [ok |-> b.ok, next |-> b.next, conf |-> b.conf, ne |-> Len(b.own) + SumNe(M, b.kids, 1)]

\* the dense table: every function at every position, positions from the end of the input backwards
RECURSIVE FillPos(_,_,_,_), FillAll(_,_,_)
FillPos(toks, pos, i, M) ==
  IF i > Len(Order) THEN M
  ELSE FillPos(toks, pos, i + 1, M @@ (Key(Order[i], pos) :> (Stored(M, Body(M, toks, Order[i], pos)) @@ [nt |-> Order[i], start |-> pos])))
FillAll(toks, left, M) ==          \* left = number of positions still to fill; the next position is left - 1
  IF left = 0 THEN M ELSE FillAll(toks, left - 1, FillPos(toks, left - 1, 1, M))
Table(toks) == FillAll(toks, Len(toks) + 1, [x \in {} |-> x])

\* the syntax errors a term carries, in the order parse() reports them
RECURSIVE ErrsOf(_,_,_), ErrsKids(_,_,_,_)
ErrsOf(M, toks, k) == LET b == Body(M, toks, M[k].nt, M[k].start) IN ErrsKids(M, toks, b.kids, 1) \o b.own
ErrsKids(M, toks, ks, i) == IF i > Len(ks) THEN <<>> ELSE ErrsOf(M, toks, ks[i]) \o ErrsKids(M, toks, ks, i + 1)
\* what parse() reports for the syntax stage: the collected errors; if there are none but input is left over, one error there
SyntaxErrors(M, toks) ==
  LET top == M[Key("Term", 0)]  es == ErrsOf(M, toks, Key("Term", 0)) IN
  IF es = <<>> /\ top.next # Len(toks) THEN <<Err(top.next, "EOF")>> ELSE es
\* the results the parse of the start symbol asks for, directly or through the functions it calls (worklist closure over `used`):
\* with memoisation these are exactly the results a parse computes, each once
RECURSIVE Reach(_,_,_,_)
Reach(M, toks, todo, seen) ==
  IF todo = {} THEN seen
  ELSE LET k == CHOOSE x \in todo : TRUE
           u == Body(M, toks, M[k].nt, M[k].start).used IN
       Reach(M, toks, (todo \cup ((u \cap DOMAIN M) \ seen)) \ {k}, seen \cup {k})
Demanded(M, toks) == Reach(M, toks, {Key("Term", 0)}, {})
PegAccepts(toks) == \E M \in {Table(toks)} : SyntaxErrors(M, toks) = <<>>
====
