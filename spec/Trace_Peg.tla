---- MODULE Trace_Peg ----
\* The real packrat parser against GramPeg.  One event per input: the token kinds, EVERY result the parser stored in its memo
\* table (guarded hook in cache_return!: function, start, produced-a-term, next, confident, number of errors carried, order of
\* completion) and the syntax diagnostics parse() finally reported (position, expectation, order; read back from the messages).
\* Each stored result must be what the specification's clause for that function yields from the stored results of the
\* functions it calls (which must have been stored earlier); no key may be stored twice (memoisation); the reported diagnostics
\* must be the ones the specification collects from the table.
EXTENDS GramPeg, Json, IOUtils
CONSTANT CheckDemanded      \* C17: also require that the parser computed exactly the results the start symbol asks for
Rec == ndJsonDeserialize(IOEnv.TRACE)
VARIABLES l
Bad(what) == Print(<<"TRACE-REJECT", l, what>>, TRUE)
EntryOK(M, toks, k) == \E r \in {M[k]} : \E b \in {Body(M, toks, r.nt, r.start)} :
  IF ~(b.used \subseteq DOMAIN M) THEN Bad(<<"C07", "the parsing function needs a result the parser never computed", k, b.used \ DOMAIN M>>)
  ELSE IF \E u \in b.used : M[u].seq >= r.seq THEN Bad(<<"C07", "a result was stored before a result it depends on", k>>)
  ELSE IF b.ok # r.ok \/ b.next # r.next \/ b.conf # r.conf \/ Stored(M, b).ne # r.ne
       THEN Bad(<<"C07", "stored result differs from the specification's clause", k, [ok |-> r.ok, next |-> r.next, conf |-> r.conf, ne |-> r.ne], Stored(M, b)>>)
  ELSE TRUE
PegEv(e) ==
  IF e.crash # "" THEN Bad(<<"C14", "parser crashed", e.crash>>)
  ELSE \E M \in {e.memo} :
    /\ IF e.dups # 0 THEN Bad(<<"C17", "a memo key was computed and stored more than once", e.dups>>) ELSE TRUE
    /\ IF Key("Term", 0) \notin DOMAIN M THEN Bad(<<"C07", "no result for the start symbol">>)
       ELSE /\ \A k \in DOMAIN M : EntryOK(M, e.toks, k)
            /\ IF (\A k \in DOMAIN M : \E b \in {Body(M, e.toks, M[k].nt, M[k].start)} : b.used \subseteq DOMAIN M) /\ SyntaxErrors(M, e.toks) # e.errs
               THEN Bad(<<"C15", "reported syntax diagnostics differ from those the table yields (position / expectation / order)", e.errs, SyntaxErrors(M, e.toks)>>) ELSE TRUE
            /\ IF CheckDemanded /\ (\A k \in DOMAIN M : \E b \in {Body(M, e.toks, M[k].nt, M[k].start)} : b.used \subseteq DOMAIN M) /\ DOMAIN M # Demanded(M, e.toks)
               THEN Bad(<<"C17", "the parser computed results that nothing asks for (work beyond what the specification's parse demands)", Cardinality(DOMAIN M), Cardinality(Demanded(M, e.toks))>>) ELSE TRUE
            /\ IF (e.errs = <<>>) # (M[Key("Term", 0)].ne = 0 /\ M[Key("Term", 0)].next = Len(e.toks))
               THEN Bad(<<"C14", "acceptance by the syntax stage and reported diagnostics disagree">>) ELSE TRUE
TInit == l = 1
TNext == l <= Len(Rec) /\ l' = l + 1 /\ (IF Rec[l].ev = "peg" THEN PegEv(Rec[l]) ELSE Bad(<<"tool", "unknown event">>))
TSpec == TInit /\ [][TNext]_<<l>>
TraceAccepted == IF TLCGet("stats").diameter - 1 = Len(Rec) THEN TRUE ELSE Print(<<"TRACE-STOPPED-AT", TLCGet("stats").diameter>>, FALSE)
====
