---- MODULE MC_PunchHosts ----
\* C12 beyond the exhaustive bound: host terms recorded from the real parser (type-directed generated programs, corpus) are read
\* from a file; TLC computes the occurs-check configurations, the single punches and the two-step configurations of each host.
EXTENDS GramUnify, Json, IOUtils
Hosts == ndJsonDeserialize(IOEnv.HOSTS)
VARIABLE i
Init == i = 0
Next == i < Len(Hosts) /\ i' = i + 1
P(kind, a, b) == [kind |-> kind, a |-> a, b |-> b]
Subs(t) == { x \in Subterms(t, <<>>, 0) : x.pos # <<>> }
Occurs(t) == { P("occurs", Hole(1, 0), Replace(t, s.pos, Hole(1, s.d))) : s \in Subs(t) }
Single(t) == UNION { { P("punch1", Replace(t, s.pos, Hole(1, sh)), t) : sh \in {0, s.d} } : s \in Subs(t) }
TwoStep(t) == UNION { { [kind |-> "twostep", a |-> Replace(t, s1.pos, Hole(1, p[1])), b |-> Replace(t, s2.pos, Hole(2, p[2])), a2 |-> Replace(t, s2.pos, Hole(2, p[2])), b2 |-> t] : p \in {0, s1.d} \X {0, s2.d - s1.d, s2.d} }
                      : <<s1, s2>> \in { <<x, y>> \in Subs(t) \X Subs(t) : IsPrefixPos(x.pos, y.pos) /\ x.pos # y.pos /\ Len(y.pos) <= Len(x.pos) + 2 } }
Nested(t) == UNION { { P("nested", Replace(t, s1.pos, Hole(1, p[1])), Replace(t, s2.pos, Hole(2, p[2]))) : p \in {0, s1.d} \X {0, s2.d - s1.d, s2.d} }
                      : <<s1, s2>> \in { <<x, y>> \in Subs(t) \X Subs(t) : IsPrefixPos(x.pos, y.pos) /\ x.pos # y.pos /\ Len(y.pos) <= Len(x.pos) + 2 } }
Emit == (i >= 1) => \A p \in Occurs(Hosts[i].t) \cup Single(Hosts[i].t) \cup Nested(Hosts[i].t) \cup TwoStep(Hosts[i].t) : PrintT(<<"PAIR", ToJson(p)>>)
====
