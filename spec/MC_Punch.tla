---- MODULE MC_Punch ----
\* C12 inputs: (pattern, instance) pairs obtained by punching holes (every position, every shift 0..depth, one or two
\* holes, shared or distinct identities) into every well-typed program up to MaxSize; occurs-check configurations
\* (a hole against a term containing it); reflexive and reduct pairs of hole-free terms.
EXTENDS GramBuild, GramUnify, GramPool, Json
CONSTANTS TyFuel, Skel
T == Built
WellTyped(t) == Infer(t, <<>>, TyFuel).r = "ok" /\ DefOrderOK(t)     \* no divergent definitions: conversion terminates
P(kind, a, b) == [kind |-> kind, a |-> a, b |-> b]
Single(t) == { P("punch1", Replace(t, s.pos, Hole(1, sh)), t) : s \in { x \in Subterms(t, <<>>, 0) : x.pos # <<>> }, sh \in 0..2 }
SingleOK(t) == UNION { { P("punch1", Replace(t, s.pos, Hole(1, sh)), t) : sh \in 0..s.d } : s \in { x \in Subterms(t, <<>>, 0) : x.pos # <<>> } }
\* two holes: a second hole of its own (shift 0), or a second occurrence of the SAME hole (then with the same home: both
\* occurrences are raised to their depth, i.e. the hole lives in the outermost context)
Double(t) == UNION { { P("punch2", Replace(Replace(t, s1.pos, Hole(1, s1.d)), s2.pos, Hole(2, 0)), t),
                       P("punch2", Replace(Replace(t, s1.pos, Hole(1, s1.d)), s2.pos, Hole(1, s2.d)), t) }
                     : <<s1, s2>> \in { <<x, y>> \in Subterms(t, <<>>, 0) \X Subterms(t, <<>>, 0) :
                                         x.pos # <<>> /\ y.pos # <<>> /\ ~IsPrefixPos(x.pos, y.pos) /\ ~IsPrefixPos(y.pos, x.pos) } }
\* both sides punched: each side has a hole where the other has the subterm
Cross(t) == { P("cross", Replace(t, s1.pos, Hole(1, 0)), Replace(t, s2.pos, Hole(2, 0)))
              : <<s1, s2>> \in { <<x, y>> \in Subterms(t, <<>>, 0) \X Subterms(t, <<>>, 0) :
                                  x.pos # <<>> /\ y.pos # <<>> /\ ~IsPrefixPos(x.pos, y.pos) /\ ~IsPrefixPos(y.pos, x.pos) } }
\* a hole against a term that contains it, at any depth (the occurrence is raised to its depth: one home for the hole)
Occurs(t) == { P("occurs", Hole(1, 0), Replace(t, s.pos, Hole(1, s.d))) : s \in { x \in Subterms(t, <<>>, 0) : x.pos # <<>> } }
\* both sides punched, one hole strictly inside the region the other stands for (every pair of shifts): the solution of the
\* outer hole contains the inner, unsolved, hole, which has to be carried out of the binders in between
Nested(t) == UNION { { P("nested", Replace(t, s1.pos, Hole(1, p[1])), Replace(t, s2.pos, Hole(2, p[2]))) : p \in (0..s1.d) \X (0..s2.d) }
                     : <<s1, s2>> \in { <<x, y>> \in Subterms(t, <<>>, 0) \X Subterms(t, <<>>, 0) : x.pos # <<>> /\ IsPrefixPos(x.pos, y.pos) /\ x.pos # y.pos } }
\* occurs check through another hole's solution: the pattern has holes h1, h2 at two disjoint positions, the instance has
\* -h2 where the pattern has h1 and -h1 where the pattern has h2: after h1 := -h2, solving h2 := -h1 would be cyclic
\* (below the function parameter of skeleton 3 the wrapper is an application of that parameter, g h: weak-head normalisation
\* leaves the argument of a neutral application alone, so the solved hole stays a hole node inside the other's solution)
Wrap(d, h) == IF Skel = 3 /\ d >= 1 THEN App(Var(d - 1), h) ELSE NegT(h)
\* home of the two holes: the outermost context, or (skeleton 3) just inside the binder of g, so that solutions may mention g
HS(d) == IF Skel = 3 /\ d >= 1 THEN d - 1 ELSE d
Cycle2(t) == { P("cycle2", Replace(Replace(t, s1.pos, Hole(1, HS(s1.d))), s2.pos, Hole(2, HS(s2.d))), Replace(Replace(t, s1.pos, Wrap(s1.d, Hole(2, HS(s1.d)))), s2.pos, Wrap(s2.d, Hole(1, HS(s2.d)))))
              : <<s1, s2>> \in { <<x, y>> \in Subterms(t, <<>>, 0) \X Subterms(t, <<>>, 0) :
                                  x.pos # <<>> /\ y.pos # <<>> /\ ~IsPrefixPos(x.pos, y.pos) /\ ~IsPrefixPos(y.pos, x.pos)
                                  /\ (Skel = 3 => (x.d >= 1 /\ y.d >= 1)) } }      \* both inside the scope of g: one home per hole
\* unrelated terms: one subterm replaced by a different constant -- unification has to fail (or succeed, where the subterm does
\* not matter) part-way through the binders above the position, and leave the caller's context as it was (C18)
Mismatch(t) == UNION { { P("mismatch", Replace(t, s.pos, k), t) : k \in {TType, TInt, Lit(OfSmall(1))} \ {s.sub} } : s \in { x \in Subterms(t, <<>>, 0) : x.pos # <<>> } }
\* unrelated hole-free terms: the host against every member of the pool -- whenever unification succeeds the two must be equal
Unrelated(t) == { P("unrelated", t, u) : u \in Pool \ {t} }
\* two calls in a row on shared holes: the first leaves a hole g unsolved inside the solution of h, the second solves g.
\* (pattern: h with shift sh at s1; instance: g at s2 strictly inside s1)  then  (instance, t)
TwoStep(t) == UNION { { [kind |-> "twostep", a |-> Replace(t, s1.pos, Hole(1, p[1])), b |-> Replace(t, s2.pos, Hole(2, p[2])), a2 |-> Replace(t, s2.pos, Hole(2, p[2])), b2 |-> t] : p \in (0..s1.d) \X (0..s2.d) }
                      : <<s1, s2>> \in { <<x, y>> \in Subterms(t, <<>>, 0) \X Subterms(t, <<>>, 0) : x.pos # <<>> /\ IsPrefixPos(x.pos, y.pos) /\ x.pos # y.pos } }
\* hosts below binders: the machine starts inside  (x : type) => _   or  (x : type) => (y : type) => _ , so that small bodies
\* can mention variables bound outside the punched region
SInit == CASE Skel = 0 -> BInit
           [] Skel = 1 -> pre = <<[k |-> "lam"], [k |-> "type"]>> /\ pending = <<1>> /\ size = 2
           [] Skel = 2 -> pre = <<[k |-> "lam"], [k |-> "type"], [k |-> "lam"], [k |-> "type"]>> /\ pending = <<2>> /\ size = 4
           \* (g : int -> int) => _
           [] Skel = 3 -> pre = <<[k |-> "lam"], [k |-> "pi"], [k |-> "int"], [k |-> "int"]>> /\ pending = <<1>> /\ size = 4
\* the SAME pair unified twice: the second call reads the holes the first one solved -- at their shifts, below the binders and
\* local definitions between a hole's home and its occurrence -- and has to confirm the first; against a host whose subterm was
\* replaced by a ground constant it has to fail unless that constant is what the solution is
\* (where the host is  (x : type) => (d : .. = ..; body)  and the position lies in that body, the calls are ALSO made on the bodies
\* under the definitions context of the two binders -- `peel` -- which is how the type checker calls the unifier: a local
\* definition between a hole's home and its occurrence is then a context entry, not a `let` that normalisation opens)
CanPeel(t, s) == t.k = "lam" /\ t.b.k = "let" /\ Len(t.b.defs) = 1 /\ Len(s.pos) >= 2 /\ s.pos[1] = "b" /\ s.pos[2] = "b"
AgainAt(t, s, sh, pl) ==
   { [kind |-> "again", peel |-> pl, a |-> Replace(t, s.pos, Hole(1, sh)), b |-> t, a2 |-> Replace(t, s.pos, Hole(1, sh)), b2 |-> t] }
   \cup { [kind |-> "again-mismatch", peel |-> pl, a |-> Replace(t, s.pos, Hole(1, sh)), b |-> t, a2 |-> Replace(t, s.pos, Hole(1, sh)), b2 |-> Replace(t, s.pos, k)] : k \in {TInt, TType} \ {s.sub} }
Again(t) == UNION { UNION { AgainAt(t, s, sh, 0) \cup (IF CanPeel(t, s) THEN AgainAt(t, s, sh, 2) ELSE {}) : sh \in 0..s.d }
                    : s \in { x \in Subterms(t, <<>>, 0) : x.pos # <<>> } }
\* two calls, the INNER hole first: the first call solves g (strictly inside the region of h, possibly below binders of that region);
\* the second call solves h against the term that contains the solved g -- the solution of h is that region, carried out of the
\* binders between h's home and its occurrence, WITH the solved hole inside it (a solved hole is lowered below a binder)
TwoStepIn(t) == UNION { { [kind |-> "twostep", peel |-> 0, a |-> Replace(t, s2.pos, Hole(2, p[2])), b |-> t, a2 |-> Replace(t, s1.pos, Hole(1, p[1])), b2 |-> Replace(t, s2.pos, Hole(2, p[2]))]
                          : p \in (0..s1.d) \X (0..s2.d) }
                        : <<s1, s2>> \in { <<x, y>> \in Subterms(t, <<>>, 0) \X Subterms(t, <<>>, 0) : x.pos # <<>> /\ IsPrefixPos(x.pos, y.pos) /\ x.pos # y.pos } }
Emit3 == (Done /\ size >= 2 /\ ~HasHole(T) /\ WellTyped(T)) => \A p \in Again(T) \cup TwoStepIn(T) : PrintT(<<"PAIR", ToJson(p)>>)
Reducts(t) == { P("reduct", t, StepN(t, k)) : k \in 0..3 }
Pairs(t) == SingleOK(t) \cup Double(t) \cup Cross(t) \cup Occurs(t) \cup Nested(t) \cup Cycle2(t) \cup Mismatch(t) \cup Unrelated(t) \cup Reducts(t)
Emit2 == (Done /\ size >= 2 /\ ~HasHole(T) /\ WellTyped(T)) => \A p \in TwoStep(T) : PrintT(<<"PAIR", ToJson(p)>>)
Emit == (Done /\ size >= 2 /\ ~HasHole(T) /\ WellTyped(T)) => \A p \in Pairs(T) : PrintT(<<"PAIR", ToJson(p)>>)
====
