---- MODULE GramUnparse ----
\* From a surface syntax tree to a sentence (C07 by tree size, C16): every node carries `p` = "wrap this node in
\* redundant parentheses"; parentheses the grammar requires are inserted from the node's category.
\* Categories (nonterminals of grammar.y): 1 atom, 2 small_term (application), 3 medium_term (* /), 4 large_term
\* (negation), 5 huge_term (+ -), 6 giant_term (comparison), 7 jumbo_term (lambda, function type, if), 8 term (let).
\* UP(t, req, off) = [toks |-> token kinds, ast |-> the tree the parser must build, with absolute token positions]
EXTENDS Naturals, Sequences, FiniteSets, TLC
OpTok(op) == CASE op = "prod" -> "ASTERISK" [] op = "quot" -> "SLASH" [] op = "sum" -> "PLUS" [] op = "diff" -> "MINUS"
               [] op = "lt" -> "LESS_THAN" [] op = "le" -> "LESS_THAN_OR_EQUAL" [] op = "eq" -> "DOUBLE_EQUALS" [] op = "gt" -> "GREATER_THAN" [] op = "ge" -> "GREATER_THAN_OR_EQUAL"
Native(t) == CASE t.k \in {"var", "lit", "type", "int", "bool", "true", "false"} -> 1
               [] t.k = "app" -> 2
               [] t.k = "bin" /\ t.op \in {"prod", "quot"} -> 3
               [] t.k = "neg" -> 4
               [] t.k = "bin" /\ t.op \in {"sum", "diff"} -> 5
               [] t.k = "bin" -> 6
               [] t.k \in {"lam", "pi", "ndpi", "if"} -> 7
               [] t.k = "let" -> 8
KwTok(k) == CASE k = "type" -> "TYPE" [] k = "int" -> "INTEGER" [] k = "bool" -> "BOOLEAN" [] k = "true" -> "TRUE" [] k = "false" -> "FALSE"
HoleA == [k |-> "hole"]
R(toks, ast) == [toks |-> toks, ast |-> ast]
RECURSIVE UPm(_,_,_,_), Body(_,_,_), LetParts(_,_)
\* t.np ("no parentheses"): the parentheses the grammar REQUIRES around this node are left out -- the result is either not a
\* sentence or a sentence with another tree; used to probe over-acceptance beyond the token bound of the exhaustive check
\* every syntax-tree node also carries sp = <<first, last>>: the token positions of its own text (without parentheses
\* written around it) -- what its source range must cover (C15)
\* mid: t is the unparenthesised LEFT operand of a `* /` node, so t's own right operand is followed by more of the chain.  Only the
\* LAST operand of a `* /` chain may be a bare negation (small_term OP large_term, and a negation takes everything to its right that
\* a large_term can hold): `a * - b * c` is a * (-(b * c)), and (a * (-b)) * c needs its parentheses.
UPm(t, req, off, mid) == IF (t.p \/ Native(t) > req) /\ ~t.np
                   THEN LET r == Body(t, off + 1, FALSE) IN R(<<"LEFT_PAREN">> \o r.toks \o <<"RIGHT_PAREN">>, r.ast @@ ("sp" :> <<off + 2, off + 1 + Len(r.toks)>>))
                   ELSE LET r == Body(t, off, mid) IN R(r.toks, r.ast @@ ("sp" :> <<off + 1, off + Len(r.toks)>>))
UP(t, req, off) == UPm(t, req, off, FALSE)
\* the definitions of the group that starts at t and its body; an unparenthesised let in body position joins the group
LetParts(t, off) ==
  LET an == IF t.ann THEN UP(t.a, 2, off + 2) ELSE R(<<>>, HoleA)
      o1 == off + 1 + (IF t.ann THEN 1 + Len(an.toks) ELSE 0)                \* tokens so far: name, [":" annotation]
      d == UP(t.d, 8, o1 + 1)                                                  \* after "="
      o2 == o1 + 1 + Len(d.toks) + 1                                           \* after ";"
      head == <<"IDENTIFIER">> \o (IF t.ann THEN <<"COLON">> \o an.toks ELSE <<>>) \o <<"EQUALS">> \o d.toks \o <<"TERMINATOR">>
      def == [p |-> off + 1, ann |-> an.ast, def |-> d.ast]
  IN IF t.b.k = "let" /\ ~t.b.p
     THEN LET rest == LetParts(t.b, o2) IN [toks |-> head \o rest.toks, defs |-> <<def>> \o rest.defs, b |-> rest.b]
     ELSE LET b == UP(t.b, 8, o2) IN [toks |-> head \o b.toks, defs |-> <<def>>, b |-> b.ast]
Body(t, off, mid) ==
  CASE t.k = "var" -> R(<<"IDENTIFIER">>, [k |-> "var", p |-> off + 1])
    [] t.k = "lit" -> R(<<"INTEGER_LITERAL">>, [k |-> "lit", p |-> off + 1])
    [] t.k \in {"type", "int", "bool", "true", "false"} -> R(<<KwTok(t.k)>>, [k |-> t.k])
    [] t.k = "app" -> LET l == UP(t.a, 2, off)  r == UP(t.b, 1, off + Len(l.toks)) IN R(l.toks \o r.toks, [k |-> "app", a |-> l.ast, b |-> r.ast])
    [] t.k = "neg" -> LET a == UP(t.a, 4, off + 1) IN R(<<"MINUS">> \o a.toks, [k |-> "neg", a |-> a.ast])
    [] t.k = "bin" ->
         LET lr == CASE t.op \in {"prod", "quot"} -> <<3, IF mid \/ t.b.k # "neg" THEN 2 ELSE 4>> [] t.op \in {"sum", "diff"} -> <<5, 4>> [] OTHER -> <<5, 5>>
             l == UPm(t.a, lr[1], off, t.op \in {"prod", "quot"})  r == UP(t.b, lr[2], off + Len(l.toks) + 1)
         IN R(l.toks \o <<OpTok(t.op)>> \o r.toks, [k |-> "bin", op |-> t.op, a |-> l.ast, b |-> r.ast])
    [] t.k \in {"lam", "pi"} ->
         LET arrow == IF t.k = "lam" THEN "THICK_ARROW" ELSE "THIN_ARROW"
             open == IF t.imp THEN "LEFT_CURLY" ELSE "LEFT_PAREN"  close == IF t.imp THEN "RIGHT_CURLY" ELSE "RIGHT_PAREN"
         IN IF t.ann
            THEN LET a == UP(t.a, 7, off + 3)  b == UP(t.b, 8, off + 3 + Len(a.toks) + 2)
                 IN R(<<open, "IDENTIFIER", "COLON">> \o a.toks \o <<close, arrow>> \o b.toks, [k |-> t.k, imp |-> t.imp, p |-> off + 2, a |-> a.ast, b |-> b.ast])
            ELSE IF t.imp
                 THEN LET b == UP(t.b, 8, off + 4) IN R(<<"LEFT_CURLY", "IDENTIFIER", "RIGHT_CURLY", arrow>> \o b.toks, [k |-> t.k, imp |-> TRUE, p |-> off + 2, a |-> HoleA, b |-> b.ast])
                 ELSE LET b == UP(t.b, 8, off + 2) IN R(<<"IDENTIFIER", arrow>> \o b.toks, [k |-> t.k, imp |-> FALSE, p |-> off + 1, a |-> HoleA, b |-> b.ast])
    [] t.k = "ndpi" -> LET a == UP(t.a, 2, off)  b == UP(t.b, 8, off + Len(a.toks) + 1)
                       IN R(a.toks \o <<"THIN_ARROW">> \o b.toks, [k |-> "pi", imp |-> FALSE, p |-> 0, a |-> a.ast, b |-> b.ast])
    [] t.k = "if" -> LET c == UP(t.c, 8, off + 1)  a == UP(t.a, 8, off + 1 + Len(c.toks) + 1)  b == UP(t.b, 8, off + 1 + Len(c.toks) + 1 + Len(a.toks) + 1)
                     IN R(<<"IF">> \o c.toks \o <<"THEN">> \o a.toks \o <<"ELSE">> \o b.toks, [k |-> "if", c |-> c.ast, a |-> a.ast, b |-> b.ast])
    [] t.k = "let" -> LET g == LetParts(t, off) IN R(g.toks, [k |-> "let", defs |-> g.defs, b |-> g.b])
Unparse(t) == UP(t, 8, 0)
====
