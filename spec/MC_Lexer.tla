---- MODULE MC_Lexer ----
\* C09 / C10: all texts up to N characters over a focused alphabet.  Invariants: the machine's output satisfies
\* the declarative tokenization predicates, the layout rule and the re-layout relations; each text is emitted
\* with the prescribed result for replay into the real tokenizer.
EXTENDS GramLayout, Json
CONSTANTS Alphabet, N, CheckRelayouts
VARIABLES text, st
C(id, w, cls) == [id |-> id, w |-> w, cls |-> cls, gb |-> TRUE]
X(id, w, cls) == [id |-> id, w |-> w, cls |-> cls, gb |-> FALSE]
\* keywords and identifiers, error symbols, combining mark
AKeywords == { C("i",1,"alpha"), C("f",1,"alpha"), C("n",1,"alpha"), C("t",1,"alpha"), C("2",1,"digit"), C("_",1,"us"), C("sp",1,"ws"),
               C("e_acute",2,"alpha"), C("dollar",1,"bad"), X("U0301",2,"bad") }
\* two-character symbols
ASymbols == { C("-",1,"sym"), C(">",1,"sym"), C("=",1,"sym"), C("<",1,"sym"), C(":",1,"sym"), C("x",1,"alpha"), C("sp",1,"ws"), C("nl",1,"nl"),
              C("{",1,"sym"), C("}",1,"sym") }
\* comments and layout
ALayout == { C("x",1,"alpha"), C("1",1,"digit"), C("#",1,"hash"), C("nl",1,"nl"), C("sp",1,"ws"), C("e_acute",2,"alpha"), C(";",1,"sym"),
             C("(",1,"sym"), C(")",1,"sym"), C("+",1,"sym") }
\* errors, other numerics, wide characters and whitespace
AErrors == { C("dollar",1,"bad"), X("U0301",2,"bad"), C("x",1,"alpha"), C("sp",1,"ws"), C("e_acute",2,"alpha"), C("nl",1,"nl"), C("em_space",3,"ws"),
             C("arabic3",2,"onum"), C("7",1,"digit"), C("rocket",4,"bad"), C("#",1,"hash"), C("excl",1,"sym") }
\* remaining operators and keywords `else`/`true`
AOps == { C("*",1,"sym"), C("/",1,"sym"), C("-",1,"sym"), C("e",1,"alpha"), C("l",1,"alpha"), C("s",1,"alpha"), C("nl",1,"nl"), C("cr",1,"ws"), C("tab",1,"ws"), C("9",1,"digit") }
\* grapheme clusters whose boundaries depend on what precedes (UAX #29): pairs of regional indicators (GB12/13), emoji joined by
\* a zero-width joiner (GB11), extending marks (GB9), no joining across a line break (GB4/5).  g = grapheme class.
G(id, w, cls, g) == [id |-> id, w |-> w, cls |-> cls, gb |-> TRUE, g |-> g]
AClusters == { G("U1F1FA",4,"bad","ri"), G("U200D",3,"bad","zwj"), G("rocket",4,"bad","pict"), G("U0301",2,"bad","extend"), G("x",1,"alpha","other"),
               G("nl",1,"nl","ctl"), G("dollar",1,"bad","other") }
RECURSIVE TrailingRI(_)
TrailingRI(t) == IF t = <<>> \/ t[Len(t)].g # "ri" THEN 0 ELSE 1 + TrailingRI(SubSeq(t, 1, Len(t) - 1))
RECURSIVE PictExt(_)
PictExt(t) == t # <<>> /\ (t[Len(t)].g = "pict" \/ (t[Len(t)].g = "extend" /\ PictExt(SubSeq(t, 1, Len(t) - 1))))     \* ... pict extend*
Boundary(t, c) ==
  IF t = <<>> THEN TRUE
  ELSE IF "g" \notin DOMAIN c THEN c.gb
  ELSE IF t[Len(t)].g = "ctl" \/ c.g = "ctl" THEN TRUE
  ELSE IF c.g \in {"extend", "zwj"} THEN FALSE
  ELSE IF c.g = "pict" /\ t[Len(t)].g = "zwj" /\ PictExt(SubSeq(t, 1, Len(t) - 1)) THEN FALSE
  ELSE IF c.g = "ri" /\ TrailingRI(t) % 2 = 1 THEN FALSE
  ELSE TRUE
Init == text = <<>> /\ st = InitLex
Next == /\ Len(text) < N
        /\ \E c \in Alphabet : LET ch == [c EXCEPT !.gb = Boundary(text, c)] IN
             /\ text' = Append(text, ch)
             /\ st' = LexStep(st, ch)
Result == LexFinish(st)
Ids(t) == [i \in 1..Len(t) |-> t[i].id]
InvFold == Result = Lex(text)                        \* the incremental machine = the fold used for trace validation
InvCorrect == Correct(text, Result)                   \* C09
InvNoTwoNl == NoTwoNl(Close(st).raw)                  \* the panic! in the second pass is unreachable
InvLayout == LayoutRule(text, Result)                 \* C10: two 28-way tables = the one-sentence rule
InvRelayout == CheckRelayouts => Relayouts(text)      \* C10: comments / blanks / repeated line breaks / `;`
Emit == PrintT(<<"LEX", ToJson([t |-> Ids(text), r |-> Result])>>)
====
