---- MODULE GramEval ----
\* Call-by-value small-step evaluation (src/evaluator.rs step / is_value / evaluate), one disjunct per rule.
\*   - left operand first, both operands values before a primitive fires, only the chosen branch of `if` is evaluated
\*   - beta reduction opens the body with the argument
\*   - a definition group unfolds one definition at a time: definitions that are already values are available to
\*     the whole group (they are what the definition-order check treats as always available), so the first VALUE
\*     definition is substituted into the others and the body; if no definition is a value, the first one steps.
\*     A definition is unfolded through a one-definition group that rebinds its own name (recursion).
EXTENDS GramTerm

IsValue(t) == t.k \in {"type","lam","pi","int","lit","bool","true","false"}
None == [r |-> "none"]
St(t) == [r |-> "step", t |-> t]

PrimRes(op, x, y) ==
  CASE op = "sum" -> St(Lit(Add(x, y))) [] op = "diff" -> St(Lit(Sub(x, y))) [] op = "prod" -> St(Lit(Mul(x, y)))
    [] op = "quot" -> IF y.s = 0 THEN None ELSE St(Lit(Quot(x, y)))       \* truncating toward zero; division by zero is stuck
    [] op = "lt" -> St(IF Cmp(x,y) < 0 THEN TTrue ELSE TFalse)
    [] op = "le" -> St(IF Cmp(x,y) <= 0 THEN TTrue ELSE TFalse)
    [] op = "eq" -> St(IF Cmp(x,y) = 0 THEN TTrue ELSE TFalse)
    [] op = "gt" -> St(IF Cmp(x,y) > 0 THEN TTrue ELSE TFalse)
    [] op = "ge" -> St(IF Cmp(x,y) >= 0 THEN TTrue ELSE TFalse)

FirstValuePos(defs) == IF \E p \in 1..Len(defs) : IsValue(defs[p].def)
                       THEN CHOOSE p \in 1..Len(defs) : IsValue(defs[p].def) /\ \A q \in 1..(p-1) : ~IsValue(defs[q].def) ELSE 0
\* definition p (1-based, index n - p) with its own name rebound by a one-definition group around a copy of itself
UnfoldAt(defs, p) ==
  LET n == Len(defs)  idx == n - p  d == defs[p]
      self == [k |-> "var", i |-> 0, n |-> d.n]
  IN Open(d.def, idx, LetT(<< [n |-> d.n, ann |-> Open(Up(d.ann, 0, 1), idx + 1, self, 0), def |-> Open(Up(d.def, 0, 1), idx + 1, self, 0)] >>, self), 0)
\* the group without definition p, with p's unfolding substituted everywhere
ElimAt(t, p) ==
  LET n == Len(t.defs)  u == UnfoldAt(t.defs, p)  idx == n - p
      others == Mat([j \in 1..(n-1) |-> LET o == IF j < p THEN t.defs[j] ELSE t.defs[j+1] IN [o EXCEPT !.ann = Open(o.ann, idx, u, 0), !.def = Open(o.def, idx, u, 0)]], n - 1)
  IN [t EXCEPT !.defs = others, !.b = Open(t.b, idx, u, 0)]

RECURSIVE Step(_)
Step(t) ==
  CASE t.k = "app" ->
         LET sa == Step(t.a) IN IF sa.r = "step" THEN St([t EXCEPT !.a = sa.t]) ELSE
         IF ~IsValue(t.a) THEN None ELSE
         LET sb == Step(t.b) IN IF sb.r = "step" THEN St([t EXCEPT !.b = sb.t]) ELSE
         IF ~IsValue(t.b) THEN None ELSE
         IF t.a.k = "lam" THEN St(Open(t.a.b, 0, t.b, 0)) ELSE None
    [] t.k = "let" ->
         IF Len(t.defs) = 0 THEN St(t.b) ELSE
         LET p == FirstValuePos(t.defs) IN
         IF p = 0 THEN (LET sd == Step(t.defs[1].def) IN IF sd.r = "step" THEN St([t EXCEPT !.defs[1].def = sd.t]) ELSE None)
         ELSE St(ElimAt(t, p))
    [] t.k = "neg" -> LET sa == Step(t.a) IN IF sa.r = "step" THEN St([t EXCEPT !.a = sa.t]) ELSE
         IF t.a.k = "lit" THEN St(Lit(Neg(t.a.v))) ELSE None
    [] t.k = "bin" ->
         LET sa == Step(t.a) IN IF sa.r = "step" THEN St([t EXCEPT !.a = sa.t]) ELSE
         IF ~IsValue(t.a) THEN None ELSE
         LET sb == Step(t.b) IN IF sb.r = "step" THEN St([t EXCEPT !.b = sb.t]) ELSE
         IF t.a.k = "lit" /\ t.b.k = "lit" THEN PrimRes(t.op, t.a.v, t.b.v) ELSE None
    [] t.k = "if" -> LET sc == Step(t.c) IN IF sc.r = "step" THEN St([t EXCEPT !.c = sc.t]) ELSE
         IF t.c.k = "true" THEN St(t.a) ELSE IF t.c.k = "false" THEN St(t.b) ELSE None
    [] OTHER -> None

RECURSIVE Run(_,_)
Run(t, fuel) == IF fuel = 0 THEN [r |-> "fuel", t |-> t] ELSE LET s == Step(t) IN IF s.r = "step" THEN Run(s.t, fuel - 1) ELSE [r |-> "end", t |-> t]
RECURSIVE StepN(_,_)
StepN(t, k) == IF k = 0 THEN t ELSE LET s == Step(t) IN IF s.r = "step" THEN StepN(s.t, k - 1) ELSE t

\* Why is a non-value normal form stuck?  Read off the redex position.
\*   "divzero" | "unavailable" (a group variable that has no value yet) | "not-a-function" | "wrong-kind" | "hole" | "free-variable"
RECURSIVE StuckReason(_)
Operand(t) == IF t.k = "var" THEN "unavailable" ELSE IF t.k = "hole" THEN "hole" ELSE StuckReason(t)
StuckReason(t) ==
  CASE t.k = "var" -> "unavailable"
    [] t.k = "hole" -> "hole"
    [] t.k = "app" -> IF ~IsValue(t.a) THEN Operand(t.a) ELSE IF ~IsValue(t.b) THEN Operand(t.b) ELSE "not-a-function"
    [] t.k = "let" -> Operand(t.defs[1].def)
    [] t.k = "neg" -> IF ~IsValue(t.a) THEN Operand(t.a) ELSE "wrong-kind"
    [] t.k = "bin" -> IF ~IsValue(t.a) THEN Operand(t.a) ELSE IF ~IsValue(t.b) THEN Operand(t.b)
                      ELSE IF t.a.k = "lit" /\ t.b.k = "lit" THEN "divzero" ELSE "wrong-kind"
    [] t.k = "if" -> IF ~IsValue(t.c) THEN Operand(t.c) ELSE "wrong-kind"
    [] OTHER -> "value"
\* classification of the end of a run: value kinds, "divzero", or the stuck reason
Outcome(t, fuel) == LET e == Run(t, fuel) IN
   IF e.r = "fuel" THEN [o |-> "fuel"] ELSE
   IF e.t.k = "lit" THEN [o |-> "lit", v |-> e.t.v] ELSE
   IF IsValue(e.t) THEN [o |-> e.t.k] ELSE [o |-> StuckReason(e.t)]
====
