---- MODULE MC_Arith ----
\* C19 / C08 hosts: every arithmetic tree up to MaxSize nodes over the enabled operators.  The rewrites applied to them live in
\* the concrete syntax (redundant parentheses around any operand, gram's own minimal rendering), so no rewritten term is
\* attached: the harness renders each tree in every such way and compares the observations.
EXTENDS GramBuild, Json
Emit == (Done /\ size >= 3) => PrintT(<<"REWRITE", ToJson([t |-> Built, rs |-> <<>>])>>)
====
