---- MODULE GramPool ----
\* A small pool of closed terms used as "the other side" of conversion / unification pairs: constants, literals, reducible and
\* stuck terms, functions, function types, and definition groups of different lengths that share a prefix and have
\* same-shaped bodies (a structural comparison that forgets to compare the lengths would equate them).
EXTENDS GramTerm
Pool == { TType, TInt, TBool, TTrue, TFalse, Lit(OfSmall(0)), Lit(OfSmall(1)), Bin("sum", Lit(OfSmall(0)), Lit(OfSmall(1))), Bin("lt", Lit(OfSmall(0)), Lit(OfSmall(1))),
          IfT(TTrue, TInt, TBool), Binder("lam", "?", FALSE, TInt, Var(0)), Binder("lam", "?", FALSE, TBool, Var(0)), Binder("pi", "?", FALSE, TInt, TInt),
          App(Binder("lam", "?", FALSE, TInt, Var(0)), Lit(OfSmall(1))),
          \* groups of different lengths with a shared prefix and same-shaped bodies
          LetT(<<[n |-> "?", ann |-> TInt, def |-> Lit(OfSmall(1))]>>, Var(0)),
          LetT(<<[n |-> "?", ann |-> TInt, def |-> Lit(OfSmall(1))], [n |-> "?", ann |-> TInt, def |-> Lit(OfSmall(0))]>>, Var(0)),
          LetT(<<[n |-> "?", ann |-> TInt, def |-> Lit(OfSmall(0))], [n |-> "?", ann |-> TInt, def |-> Lit(OfSmall(1))]>>, Var(0)),
          LetT(<<[n |-> "?", ann |-> TType, def |-> TInt]>>, Var(0)),
          LetT(<<[n |-> "?", ann |-> TType, def |-> TInt], [n |-> "?", ann |-> TType, def |-> TBool]>>, Var(0)) }
====
