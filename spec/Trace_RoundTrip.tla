---- MODULE Trace_RoundTrip ----
\* C16: a term and the term obtained by printing it and reading the text back in the same scope.
\* Same binding structure (De Bruijn indices), implicitness, operators, literals and holes; names are not compared
\* (binding is in the indices, and the name of an unused function-type parameter is not printed at all).
EXTENDS GramTerm, Json, IOUtils
Rec == ndJsonDeserialize(IOEnv.TRACE)
VARIABLE l
Bad(what) == Print(<<"TRACE-REJECT", l, what>>, TRUE)
RECURSIVE SameRead(_,_)
SameRead(x, y) ==
  /\ x.k = y.k
  /\ CASE x.k = "var" -> x.i = y.i
       [] x.k = "hole" -> TRUE
       [] x.k = "lit" -> x.v = y.v
       [] x.k \in {"lam","pi"} -> x.imp = y.imp /\ SameRead(x.a, y.a) /\ SameRead(x.b, y.b)
       [] x.k = "app" -> SameRead(x.a, y.a) /\ SameRead(x.b, y.b)
       [] x.k = "bin" -> x.op = y.op /\ SameRead(x.a, y.a) /\ SameRead(x.b, y.b)
       [] x.k = "neg" -> SameRead(x.a, y.a)
       [] x.k = "if" -> SameRead(x.c, y.c) /\ SameRead(x.a, y.a) /\ SameRead(x.b, y.b)
       [] x.k = "let" -> Len(x.defs) = Len(y.defs) /\ (\A j \in 1..Len(x.defs) : SameRead(x.defs[j].ann, y.defs[j].ann) /\ SameRead(x.defs[j].def, y.defs[j].def)) /\ SameRead(x.b, y.b)
       [] OTHER -> TRUE
TripEv(e) == IF e.t2.k = "none" THEN Bad(<<"printed text cannot be read back", e.what>>)
             ELSE IF SameRead(e.t, e.t2) THEN TRUE ELSE Bad(<<"printed text reads back as a different term", e.what>>)
TInit == l = 1
TNext == l <= Len(Rec) /\ l' = l + 1 /\ (IF Rec[l].ev = "roundtrip" THEN TripEv(Rec[l]) ELSE Bad("unknown event"))
TSpec == TInit /\ [][TNext]_l
TraceAccepted == IF TLCGet("stats").diameter - 1 = Len(Rec) THEN TRUE ELSE Print(<<"TRACE-STOPPED-AT", TLCGet("stats").diameter>>, FALSE)
====
