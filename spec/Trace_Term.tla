---- MODULE Trace_Term ----
\* Direction B for C11: events recorded from the real signed_shift / open / free_variables on random
\* large terms are accepted only if they equal what GramTerm prescribes.
EXTENDS GramTerm, Json, IOUtils
Rec == ndJsonDeserialize(IOEnv.TRACE)
VARIABLE l
Bad(what) == Print(<<"TRACE-REJECT", l, what>>, TRUE)   \* keep going: every event is judged
ShiftEv(e) == LET r == Shift(e.t, e.c, e.d) IN
   IF r.ok # e.r.ok THEN Bad("shift definedness") ELSE IF r.ok /\ ~Ident(r.t, e.r.t) THEN Bad("shift result") ELSE TRUE
OpenEv(e) == IF e.r.k = "panic" THEN Bad("open panicked") ELSE IF Ident(Open(e.t, e.i, e.u, e.s), e.r) THEN TRUE ELSE Bad("open result")
FvEv(e) == IF FV(e.t, e.c) = { e.vs[j] : j \in 1..Len(e.vs) } THEN TRUE ELSE Bad("free variables")
TInit == l = 1
TNext == /\ l <= Len(Rec) /\ l' = l + 1
         /\ LET e == Rec[l] IN
            CASE e.ev = "shift" -> ShiftEv(e)
              [] e.ev = "open" -> OpenEv(e)
              [] e.ev = "fv" -> FvEv(e)
              [] OTHER -> Bad("unknown event")
TSpec == TInit /\ [][TNext]_l
TraceAccepted == IF TLCGet("stats").diameter - 1 = Len(Rec) THEN TRUE ELSE Print(<<"TRACE-STOPPED-AT", TLCGet("stats").diameter>>, FALSE)
====
