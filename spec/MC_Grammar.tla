---- MODULE MC_Grammar ----
\* C07: every sentence of grammar.y up to N tokens with its derivation and the syntax tree it specifies.
\* (Unambiguity = no two emitted derivations share a yield; checked by the orchestrator over the complete output.)
EXTENDS GramGrammar, Json
Emit == Complete => PrintT(<<"SENT", ToJson([y |-> form, d |-> hist, ast |-> Ast(BuildTree(hist))])>>)
====
