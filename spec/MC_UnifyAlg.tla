---- MODULE MC_UnifyAlg ----
\* C12, design level: the unification ALGORITHM (GramUnifyAlg) against the declarative predicates (GramUnify) on every
\* punched pair of every well-typed program up to MaxSize, in both argument orders.
\*   CopyHoles = FALSE (the intended design): success => Acyclic /\ ScopeSafe /\ Consistent            -- invariant AlgSound
\*   CopyHoles = TRUE  (the code):            the same, EXCEPT where a hole was copied (fresh > 0)     -- invariant AlgSoundModuloCopies
\*                                            and TLC exhibits the copies as counterexamples to AlgSound (the recorded finding).
EXTENDS GramBuild, GramUnifyAlg
CONSTANTS TyFuel
T == Built
WellTyped(t) == Infer(t, <<>>, TyFuel).r = "ok" /\ DefOrderOK(t)
Store0 == <<Unsolved, Unsolved>>
P(a, b) == [a |-> a, b |-> b]
Pairs(t) == UNION { { P(Replace(t, s.pos, Hole(1, sh)), t) : sh \in 0..s.d } \cup { P(t, Replace(t, s.pos, Hole(1, sh))) : sh \in 0..s.d } : s \in { x \in Subterms(t, <<>>, 0) : x.pos # <<>> } }
            \cup { P(Hole(1, 0), Replace(t, s.pos, Hole(1, 0))) : s \in { x \in Subterms(t, <<>>, 0) : x.pos # <<>> /\ x.d = 0 } }
            \cup { P(Replace(t, s1.pos, Hole(1, 0)), Replace(t, s2.pos, Hole(2, 0)))
                   : <<s1, s2>> \in { <<x, y>> \in Subterms(t, <<>>, 0) \X Subterms(t, <<>>, 0) : x.pos # <<>> /\ y.pos # <<>> /\ ~IsPrefixPos(x.pos, y.pos) /\ ~IsPrefixPos(y.pos, x.pos) } }
Good(p, r) == r.r = "yes" => Acyclic(p.a, p.b, r.st) /\ ScopeSafe(p.a, p.b, r.st, 0) /\ Consistent(p.a, p.b, r.st, <<>>)
AlgSound == (Done /\ size >= 2 /\ ~HasHole(T) /\ WellTyped(T)) => \A p \in Pairs(T) : Good(p, UnifyA(p.a, p.b, <<>>, Store0, 0, 200))
AlgSoundModuloCopies == (Done /\ size >= 2 /\ ~HasHole(T) /\ WellTyped(T)) => \A p \in Pairs(T) :
   LET r == UnifyA(p.a, p.b, <<>>, Store0, 0, 200) IN r.n = 0 => Good(p, r)
\* hole-free: the algorithm agrees with conversion, and a term unifies with itself and its reducts
AlgReflRed == (Done /\ ~HasHole(T) /\ WellTyped(T)) => \A k \in 0..3 : UnifyA(T, StepN(T, k), <<>>, <<>>, 0, 200).r # "no"
====
