---- MODULE MC_Term ----
\* C11: shifting and opening are capture-avoiding.  TLC (i) checks the algebraic laws of the statement and
\* agreement with the named reference semantics on every hole-free term up to MaxSize, and (ii) emits, per
\* term, the prescribed results of shift / open / free-variables for replay into the real functions.
EXTENDS GramBuild, GramNamed, Json
CONSTANTS EmitFrom   \* emit replay lines for terms of at least this size (smaller sizes are covered by the small-alphabet run)
DD == FreeVars       \* context depth in which complete terms live
Cs == 0..2
Inserted(m) == {TType} \cup {Var(j) : j \in 0..(m-1)} \cup {App(Var(j), TType) : j \in 0..(m-1)}
               \cup {Binder("lam", "?", FALSE, TType, Var(0))} \cup {Binder("lam", "?", FALSE, TType, Var(j+1)) : j \in 0..(m-1)}
               \cup {LetT(<<[n |-> "?", ann |-> TType, def |-> Var(j+1)]>>, Var(0)) : j \in 0..(m-1)}
Laws(t) ==
  /\ \A c \in Cs : Shift(t, c, 0) = Ok(t)
  /\ \A c \in Cs, d1 \in 0..2, d2 \in 0..2 : Up(Up(t, c, d1), c, d2) = Up(t, c, d1 + d2)
  /\ \A c \in Cs, d \in 0..2 : Shift(Up(t, c, d), c, -d) = Ok(t)
  /\ \A c \in Cs, d \in 1..2 : Shift(t, c, -d).ok <=> (\A v \in FV(t, c) : v >= d)
  /\ \A i \in 0..(DD-1) : (i \notin FV(t, 0)) => \A u \in Inserted(DD - 1) : Ok(Open(t, i, u, 0)) = Shift(t, i, -1)
  /\ \A c \in 0..DD : FV(t, c) = FVRef(t, DD, c)
  \* predicted free variables of the results
  /\ \A c \in Cs, d \in 0..2 : FV(Up(t, c, d), 0) = { IF v >= c THEN v + d ELSE v : v \in FV(t, 0) }
  /\ \A i \in 0..(DD-1) : \A u \in Inserted(DD - 1) :
        FV(Open(t, i, u, 0), 0) = { IF v > i THEN v - 1 ELSE v : v \in FV(t, 0) \ {i} } \cup (IF i \in FV(t, 0) THEN FV(u, 0) ELSE {})
NamedAgree(t) ==
  /\ \A c \in 0..DD, d \in 0..2 : Up(t, c, d) = RaiseRef(t, DD, c, d)
  /\ \A c \in 0..DD, d \in 1..2 : c + d <= DD => Shift(t, c, -d) = LowerRef(t, DD, c, d)
  /\ \A i \in 0..(DD-1) : \A s \in 0..(DD-1) : \A u \in Inserted(DD - 1 - s) : Open(t, i, u, s) = OpenRef(t, DD, i, u, s)
InvLaws == Done => Laws(Built) /\ NamedAgree(Built)

ShiftCases(t) == { [c |-> c, d |-> d, r |-> Shift(t, c, d)] : c \in Cs, d \in -2..2 }
OpenCases(t) == UNION { { [i |-> i, s |-> s, u |-> u, r |-> Open(t, i, u, s)] : u \in Inserted(DD - 1 - s) } : i \in 0..(DD-1), s \in 0..1 }
FVCases(t) == { [c |-> c, vs |-> FV(t, c)] : c \in 0..DD }
Emit == (Done /\ size >= EmitFrom) => PrintT(<<"REPLAY", ToJson([t |-> Built, sh |-> ShiftCases(Built), op |-> OpenCases(Built), fv |-> FVCases(Built)])>>)
====
