---- MODULE MC_LayoutKinds ----
\* C10, for texts of EVERY length: the decision whether a gap between two significant tokens carries a line-break
\* terminator depends only on (kind of the previous significant token, whether the gap has contained a line break so far,
\* whether a line-break terminator is pending in the raw token list) -- a finite abstraction of the lexer's two passes.
\* Inputs are token kinds and line breaks (blanks and comments change neither pass).  TLC explores the complete (finite) state
\* graph, so the invariants hold for inputs of any length:
\*   RuleEquivalent   the first pass emits a raw terminator and the second pass keeps it  <=>  the one-sentence rule says so
\*   NeverTwoNl       the raw list never holds two consecutive line-break terminators (the panic! of the second pass is dead)
EXTENDS GramLexer
Kinds == (KeywordKinds \cup SymbolKinds \cup {"IDENTIFIER", "INTEGER_LITERAL"}) \ {"NLTERM"}
VARIABLES lastSig,      \* kind of the previous significant token, or "none"
          lastRaw,      \* kind of the last raw token ("NLTERM" if a raw line-break terminator is pending), or "none"
          gapNl,        \* the current gap has contained a line break
          decided,      \* last decision of the machine for a completed gap: [rule, machine]
          twoNl         \* a second consecutive raw line-break terminator was emitted
Init == lastSig = "none" /\ lastRaw = "none" /\ gapNl = FALSE /\ decided = [rule |-> FALSE, machine |-> FALSE] /\ twoNl = FALSE
LineBreak == /\ gapNl' = TRUE
             /\ IF lastRaw \in EndsExpr THEN lastRaw' = "NLTERM" /\ twoNl' = (twoNl \/ lastRaw = "NLTERM") ELSE UNCHANGED <<lastRaw, twoNl>>
             /\ UNCHANGED <<lastSig, decided>>
Token(k) == /\ decided' = [rule |-> (gapNl /\ lastSig \in EndsExpr /\ k \in StartsExpr),          \* the statement's rule
                           machine |-> (lastRaw = "NLTERM" /\ k \in StartsExpr)]                   \* first pass emitted, second pass keeps
            /\ lastSig' = k /\ lastRaw' = k /\ gapNl' = FALSE /\ UNCHANGED twoNl
Next == LineBreak \/ \E k \in Kinds : Token(k)
RuleEquivalent == decided.rule = decided.machine
NeverTwoNl == ~twoNl
====
