---- MODULE Trace_Scope ----
\* Direction B for C08: random deep named terms.  TLC recomputes the sentence (U) and the scoping verdict (R).
EXTENDS GramScope, IOUtils
Rec == ndJsonDeserialize(IOEnv.TRACE)
VARIABLE l
Bad(what) == Print(<<"TRACE-REJECT", l, what>>, TRUE)
ScopeEv(e) ==
  LET r == R(e.t, <<>>) IN
  IF U(e.t) # e.toks THEN Bad("harness: the text handed to the parser is not the specification's rendering of the term")
  ELSE IF "panic" \in DOMAIN e.obs THEN Bad("parser panicked")
  ELSE IF r.errs > 0 THEN (IF e.obs.ok THEN Bad("accepted although a name is unbound or bound again") ELSE IF ~e.obs.scoping THEN Bad("rejected, but not with scoping diagnostics") ELSE TRUE)
  ELSE IF ~e.obs.ok THEN Bad("rejected although every name is bound exactly once in scope")
  ELSE IF e.obs.idx # r.idx THEN Bad("a variable is bound to the wrong binder")
  ELSE IF e.obs.holes # Holes(e.t) THEN Bad("wrong number of holes")
  ELSE TRUE
TInit == l = 1
TNext == l <= Len(Rec) /\ l' = l + 1 /\ (IF Rec[l].ev = "scope" THEN ScopeEv(Rec[l]) ELSE Bad("unknown event"))
TSpec == TInit /\ [][TNext]_l
TraceAccepted == IF TLCGet("stats").diameter - 1 = Len(Rec) THEN TRUE ELSE Print(<<"TRACE-STOPPED-AT", TLCGet("stats").diameter>>, FALSE)
====
