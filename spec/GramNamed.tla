---- MODULE GramNamed ----
\* Reference semantics of substitution and scope changes on NAMED terms (Barendregt convention):
\* every binder gets a fresh name, free indices get the names of their context entries; substitution
\* is then the naive replacement of a name and cannot capture.  ToDB recomputes De Bruijn indices.
\* The theorems checked by TLC (MC_Term) relate this to GramTerm!Shift / Open / FV.
EXTENDS GramTerm

\* names: <<"c", p>> = context entry at position p (1 = outermost), <<tag, k>> = k-th binder (preorder) of a term
\* env: sequence of names, innermost last; index i denotes env[Len(env) - i]
RECURSIVE NameR(_,_,_,_)
\* returns [t |-> named term, nx |-> next unused counter]
NameR(t, env, tag, nx) ==
  CASE t.k = "var" -> [t |-> [k |-> "nvar", nm |-> env[Len(env) - t.i]], nx |-> nx]
    [] t.k \in {"lam","pi"} ->
         LET a == NameR(t.a, env, tag, nx + 1)
             b == NameR(t.b, Append(env, <<tag, nx>>), tag, a.nx)
         IN [t |-> [k |-> t.k, imp |-> t.imp, nm |-> <<tag, nx>>, a |-> a.t, b |-> b.t], nx |-> b.nx]
    [] t.k \in {"app","bin"} ->
         LET a == NameR(t.a, env, tag, nx)  b == NameR(t.b, env, tag, a.nx)
         IN [t |-> [t EXCEPT !.a = a.t, !.b = b.t], nx |-> b.nx]
    [] t.k = "neg" -> LET a == NameR(t.a, env, tag, nx) IN [t |-> [t EXCEPT !.a = a.t], nx |-> a.nx]
    [] t.k = "if" ->
         LET c == NameR(t.c, env, tag, nx)  a == NameR(t.a, env, tag, c.nx)  b == NameR(t.b, env, tag, a.nx)
         IN [t |-> [t EXCEPT !.c = c.t, !.a = a.t, !.b = b.t], nx |-> b.nx]
    [] t.k = "let" ->
         LET n == Len(t.defs)
             names == [j \in 1..n |-> <<tag, nx + j - 1>>]
             env2 == env \o names
             RECURSIVE go(_,_)
             \* go(j, counter) -> [ds |-> named defs j..n, nx]
             go(j, cnt) == IF j > n THEN [ds |-> <<>>, nx |-> cnt] ELSE
                 LET an == NameR(t.defs[j].ann, env2, tag, cnt)
                     df == NameR(t.defs[j].def, env2, tag, an.nx)
                     rest == go(j + 1, df.nx)
                 IN [ds |-> <<[nm |-> names[j], ann |-> an.t, def |-> df.t]>> \o rest.ds, nx |-> rest.nx]
             ds == go(1, nx + n)
             b == NameR(t.b, env2, tag, ds.nx)
         IN [t |-> [k |-> "let", defs |-> ds.ds, b |-> b.t], nx |-> b.nx]
    [] OTHER -> [t |-> t, nx |-> nx]
ToNamed(t, env, tag) == NameR(t, env, tag, 1).t

\* naive substitution of named term u for name x
RECURSIVE SubstNamed(_,_,_)
SubstNamed(t, x, u) ==
  CASE t.k = "nvar" -> IF t.nm = x THEN u ELSE t
    [] t.k \in {"lam","pi","app","bin"} -> [t EXCEPT !.a = SubstNamed(t.a, x, u), !.b = SubstNamed(t.b, x, u)]
    [] t.k = "neg" -> [t EXCEPT !.a = SubstNamed(t.a, x, u)]
    [] t.k = "if" -> [t EXCEPT !.c = SubstNamed(t.c, x, u), !.a = SubstNamed(t.a, x, u), !.b = SubstNamed(t.b, x, u)]
    [] t.k = "let" -> [t EXCEPT !.defs = [j \in 1..Len(t.defs) |-> [t.defs[j] EXCEPT !.ann = SubstNamed(t.defs[j].ann, x, u), !.def = SubstNamed(t.defs[j].def, x, u)]],
                                !.b = SubstNamed(t.b, x, u)]
    [] OTHER -> t

\* free names
RECURSIVE FN(_)
FN(t) ==
  CASE t.k = "nvar" -> {t.nm}
    [] t.k \in {"lam","pi"} -> FN(t.a) \cup (FN(t.b) \ {t.nm})
    [] t.k \in {"app","bin"} -> FN(t.a) \cup FN(t.b)
    [] t.k = "neg" -> FN(t.a)
    [] t.k = "if" -> FN(t.c) \cup FN(t.a) \cup FN(t.b)
    [] t.k = "let" -> (FN(t.b) \cup UNION { FN(t.defs[j].ann) \cup FN(t.defs[j].def) : j \in 1..Len(t.defs) }) \ { t.defs[j].nm : j \in 1..Len(t.defs) }
    [] OTHER -> {}

\* back to indices; defined iff every free name is in env.  [ok, t]
PosLast(env, x) == CHOOSE p \in 1..Len(env) : env[p] = x /\ \A q \in (p+1)..Len(env) : env[q] # x
RECURSIVE ToDB(_,_)
ToDB(t, env) ==
  CASE t.k = "nvar" -> [k |-> "var", i |-> Len(env) - PosLast(env, t.nm), n |-> "?"]
    [] t.k \in {"lam","pi"} -> [k |-> t.k, n |-> "?", imp |-> t.imp, a |-> ToDB(t.a, env), b |-> ToDB(t.b, Append(env, t.nm))]
    [] t.k \in {"app","bin"} -> [t EXCEPT !.a = ToDB(t.a, env), !.b = ToDB(t.b, env)]
    [] t.k = "neg" -> [t EXCEPT !.a = ToDB(t.a, env)]
    [] t.k = "if" -> [t EXCEPT !.c = ToDB(t.c, env), !.a = ToDB(t.a, env), !.b = ToDB(t.b, env)]
    [] t.k = "let" -> LET env2 == env \o [j \in 1..Len(t.defs) |-> t.defs[j].nm] IN
                      [k |-> "let", defs |-> [j \in 1..Len(t.defs) |-> [n |-> "?", ann |-> ToDB(t.defs[j].ann, env2), def |-> ToDB(t.defs[j].def, env2)]], b |-> ToDB(t.b, env2)]
    [] OTHER -> t
Closed(t, env) == \A x \in FN(t) : \E p \in 1..Len(env) : env[p] = x

CtxNames(D) == [p \in 1..D |-> <<"c", p>>]
Without(env, p) == SubSeq(env, 1, p - 1) \o SubSeq(env, p + 1, Len(env))

\* ---- reference results ---------------------------------------------------------------------------
\* Opening index i of t (context depth D) with u raised by s: u lives in the context without entry i and
\* without its s innermost entries.
OpenRef(t, D, i, u, s) ==
  LET env == CtxNames(D)  p == D - i  x == env[p]
      envR == Without(env, p)
      envU == SubSeq(envR, 1, Len(envR) - s)
  IN ToDB(SubstNamed(ToNamed(t, env, "b"), x, ToNamed(u, envU, "u")), envR)

\* Raising by d at cutoff c: d fresh context entries are inserted just outside the c innermost ones.
RaiseRef(t, D, c, d) ==
  LET env == CtxNames(D)
      env2 == SubSeq(env, 1, D - c) \o [j \in 1..d |-> <<"new", j>>] \o SubSeq(env, D - c + 1, D)
  IN ToDB(ToNamed(t, env, "b"), env2)
\* Lowering by d at cutoff c: the d entries just outside the c innermost ones are removed; defined iff t does
\* not mention them.
LowerRef(t, D, c, d) ==
  LET env == CtxNames(D)
      env2 == SubSeq(env, 1, D - c - d) \o SubSeq(env, D - c + 1, D)
      nt == ToNamed(t, env, "b")
  IN IF D - c - d >= 0 /\ Closed(nt, env2) THEN Ok(ToDB(nt, env2)) ELSE Fail
\* free variables relative to cutoff c = the context entries mentioned, counted from entry c
FVRef(t, D, c) == LET env == CtxNames(D) IN { D - x[2] - c : x \in { y \in FN(ToNamed(t, env, "b")) : y[1] = "c" /\ D - y[2] >= c } }
====
