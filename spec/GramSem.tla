---- MODULE GramSem ----
\* An independent big-step semantics: environments, closures and a store of definition cells.  It shares
\* no code with the substitution-based small-step machine (GramEval) -- no shifting, no opening.
\* A group allocates one cell per definition; definitions that are syntactic values are available to the whole
\* group at once, the others are evaluated in order and become available as they finish.
EXTENDS GramEval
VLit(n) == [v |-> "lit", n |-> n]
VBool(b) == [v |-> "bool", b |-> b]
VTy == [v |-> "ty"]
VClo(body, env) == [v |-> "clo", body |-> body, env |-> env]
EVal(v) == [tag |-> "val", v |-> v]
ECell(g, j) == [tag |-> "cell", g |-> g, j |-> j]
Unavail == [v |-> "unavail"]
SOk(v, st, f) == [r |-> "ok", v |-> v, st |-> st, f |-> f]
SErr(why) == [r |-> "err", why |-> why]
SFuel == [r |-> "fuel"]
RECURSIVE Ev(_,_,_,_), EvDefs(_,_,_,_,_,_), EvValueDefs(_,_,_,_,_,_)
Ev(t, env, st, f) ==
  IF f = 0 THEN SFuel ELSE
  CASE t.k \in {"type","int","bool","pi"} -> SOk(VTy, st, f)
    [] t.k = "lit" -> SOk(VLit(t.v), st, f)
    [] t.k = "true" -> SOk(VBool(TRUE), st, f)
    [] t.k = "false" -> SOk(VBool(FALSE), st, f)
    [] t.k = "var" -> IF t.i >= Len(env) THEN SErr("unavailable") ELSE
                      LET e == env[Len(env) - t.i] IN
                      IF e.tag = "val" THEN SOk(e.v, st, f)
                      ELSE LET s == st[e.g][e.j] IN IF s.v = "unavail" THEN SErr("unavailable") ELSE SOk(s, st, f)
    [] t.k = "lam" -> SOk(VClo(t.b, env), st, f)
    [] t.k = "app" -> LET rf == Ev(t.a, env, st, f - 1) IN IF rf.r # "ok" THEN rf ELSE
                      LET ra == Ev(t.b, env, rf.st, rf.f) IN IF ra.r # "ok" THEN ra ELSE
                      IF rf.v.v = "clo" THEN Ev(rf.v.body, Append(rf.v.env, EVal(ra.v)), ra.st, ra.f) ELSE SErr("not-a-function")
    [] t.k = "let" -> LET n == Len(t.defs) g == Len(st) + 1
                          env2 == env \o Mat([j \in 1..n |-> ECell(g, j)], n)
                          st2 == Append(st, Mat([j \in 1..n |-> Unavail], n))
                          r1 == EvValueDefs(t, 1, env2, g, st2, f - 1)
                      IN IF r1.r # "ok" THEN r1 ELSE EvDefs(t, 1, env2, g, r1.st, r1.f)
    [] t.k = "neg" -> LET ra == Ev(t.a, env, st, f - 1) IN IF ra.r # "ok" THEN ra ELSE
                      IF ra.v.v = "lit" THEN SOk(VLit(Neg(ra.v.n)), ra.st, ra.f) ELSE SErr("wrong-kind")
    [] t.k = "bin" -> LET ra == Ev(t.a, env, st, f - 1) IN IF ra.r # "ok" THEN ra ELSE
                      LET rb == Ev(t.b, env, ra.st, ra.f) IN IF rb.r # "ok" THEN rb ELSE
                      IF ra.v.v = "lit" /\ rb.v.v = "lit" THEN
                         LET x == ra.v.n y == rb.v.n IN
                         CASE t.op = "sum" -> SOk(VLit(Add(x,y)), rb.st, rb.f) [] t.op = "diff" -> SOk(VLit(Sub(x,y)), rb.st, rb.f)
                           [] t.op = "prod" -> SOk(VLit(Mul(x,y)), rb.st, rb.f)
                           [] t.op = "quot" -> IF y.s = 0 THEN SErr("divzero") ELSE SOk(VLit(Quot(x,y)), rb.st, rb.f)
                           [] t.op = "lt" -> SOk(VBool(Cmp(x,y) < 0), rb.st, rb.f) [] t.op = "le" -> SOk(VBool(Cmp(x,y) <= 0), rb.st, rb.f)
                           [] t.op = "eq" -> SOk(VBool(Cmp(x,y) = 0), rb.st, rb.f) [] t.op = "gt" -> SOk(VBool(Cmp(x,y) > 0), rb.st, rb.f)
                           [] t.op = "ge" -> SOk(VBool(Cmp(x,y) >= 0), rb.st, rb.f)
                      ELSE SErr("wrong-kind")
    [] t.k = "if" -> LET rc == Ev(t.c, env, st, f - 1) IN IF rc.r # "ok" THEN rc ELSE
                     IF rc.v.v = "bool" THEN (IF rc.v.b THEN Ev(t.a, env, rc.st, rc.f) ELSE Ev(t.b, env, rc.st, rc.f)) ELSE SErr("wrong-kind")
    [] OTHER -> SErr("hole")
\* first the syntactic values of the group (closures capture the group's environment; nothing is evaluated) ...
EvValueDefs(t, j, env2, g, st, f) ==
  IF j > Len(t.defs) THEN SOk(VTy, st, f) ELSE
  IF ~IsValue(t.defs[j].def) THEN EvValueDefs(t, j + 1, env2, g, st, f) ELSE
  LET rd == Ev(t.defs[j].def, env2, st, f) IN IF rd.r # "ok" THEN rd ELSE
  EvValueDefs(t, j + 1, env2, g, [rd.st EXCEPT ![g][j] = rd.v], rd.f)
\* ... then the other definitions in order, then the body
EvDefs(t, j, env2, g, st, f) ==
  IF j > Len(t.defs) THEN Ev(t.b, env2, st, f) ELSE
  IF IsValue(t.defs[j].def) THEN EvDefs(t, j + 1, env2, g, st, f) ELSE
  LET rd == Ev(t.defs[j].def, env2, st, f) IN IF rd.r # "ok" THEN rd ELSE
  EvDefs(t, j + 1, env2, g, [rd.st EXCEPT ![g][j] = rd.v], rd.f)

\* agreement of the two semantics on the observable class of the result
SemAgrees(t, runFuel, semFuel) ==
  LET e == Run(t, runFuel)  s == Ev(t, <<>>, <<>>, semFuel) IN
    \/ e.r = "fuel" \/ s.r = "fuel"
    \/ (e.t.k = "lit" /\ s.r = "ok" /\ s.v.v = "lit" /\ s.v.n = e.t.v)
    \/ (e.t.k = "true" /\ s.r = "ok" /\ s.v.v = "bool" /\ s.v.b)
    \/ (e.t.k = "false" /\ s.r = "ok" /\ s.v.v = "bool" /\ ~s.v.b)
    \/ (e.t.k = "lam" /\ s.r = "ok" /\ s.v.v = "clo")
    \/ (e.t.k \in {"type","int","bool","pi"} /\ s.r = "ok" /\ s.v.v = "ty")
    \/ (~IsValue(e.t) /\ s.r = "err" /\ s.why = StuckReason(e.t))
====
