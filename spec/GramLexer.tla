---- MODULE GramLexer ----
\* The tokenizer of gram (src/tokenizer.rs) as a character-by-character state machine, plus the
\* declarative statement of what a correct tokenization is (C09) -- the machine is checked against it by TLC.
\*
\* A character is a record [id, w, cls, gb]:
\*   id  : ASCII identity ("x", "+", "sp", "nl", "e_acute", "U0301", ...) -- strings are atomic in TLC
\*   w   : UTF-8 width in bytes (1..4)
\*   cls : "alpha" (alphabetic: may start an identifier) | "digit" (ASCII digit) | "onum" (other alphanumeric)
\*         | "us" (underscore) | "nl" | "ws" (other whitespace) | "hash" | "sym" (id is the symbol) | "bad"
\*   gb  : a grapheme-cluster boundary precedes this character
\* A token is [k, s, e, v]: kind (terminal names of grammar.y, plus "NLTERM" for a line-break terminator),
\* byte range [s, e), and v = ids of its characters for identifiers, keywords and literals.
EXTENDS Naturals, Integers, Sequences, FiniteSets, TLC

KeywordSpelling == "BOOLEAN" :> <<"b","o","o","l">> @@ "ELSE" :> <<"e","l","s","e">> @@ "FALSE" :> <<"f","a","l","s","e">> @@ "IF" :> <<"i","f">> @@ "INTEGER" :> <<"i","n","t">> @@ "THEN" :> <<"t","h","e","n">> @@ "TRUE" :> <<"t","r","u","e">> @@ "TYPE" :> <<"t","y","p","e">>
KeywordKinds == DOMAIN KeywordSpelling
SymbolSpelling == "ASTERISK" :> <<"*">> @@ "COLON" :> <<":">> @@ "LEFT_CURLY" :> <<"{">> @@ "LEFT_PAREN" :> <<"(">> @@ "PLUS" :> <<"+">> @@
                  "RIGHT_CURLY" :> <<"}">> @@ "RIGHT_PAREN" :> <<")">> @@ "SLASH" :> <<"/">> @@ "TERMINATOR" :> <<";">> @@ "NLTERM" :> <<"nl">> @@
                  "MINUS" :> <<"-">> @@ "THIN_ARROW" :> <<"-", ">">> @@ "LESS_THAN" :> <<"<">> @@ "LESS_THAN_OR_EQUAL" :> <<"<", "=">> @@
                  "GREATER_THAN" :> <<">">> @@ "GREATER_THAN_OR_EQUAL" :> <<">", "=">> @@ "EQUALS" :> <<"=">> @@ "DOUBLE_EQUALS" :> <<"=", "=">> @@
                  "THICK_ARROW" :> <<"=", ">">>
SymbolKinds == DOMAIN SymbolSpelling
Single == {"*", ":", "{", "(", "+", "}", ")", "/", ";"}
SingleKind(id) == CHOOSE k \in SymbolKinds : SymbolSpelling[k] = <<id>>
Lookahead == {"-", "<", ">", "="}
PairKind(a, b) == IF \E k \in SymbolKinds : SymbolSpelling[k] = <<a, b>> THEN CHOOSE k \in SymbolKinds : SymbolSpelling[k] = <<a, b>> ELSE "none"

IdStart(c) == c.cls \in {"alpha", "us"}
IdCont(c) == c.cls \in {"alpha", "us", "digit", "onum"}
Classify(ids) == IF \E k \in KeywordKinds : KeywordSpelling[k] = ids THEN (CHOOSE k \in KeywordKinds : KeywordSpelling[k] = ids) ELSE "IDENTIFIER"
Tok(k, s, e, v) == [k |-> k, s |-> s, e |-> e, v |-> v]

\* The two layout tables.  A line break becomes a terminator only after a token that can end an expression
\* (first pass) and survives only before a token that can start one (second pass).  An explicit `;` counts as both.
\* `}` is listed as ending an expression although no sentence of grammar.y can observe it (DESIGN.md section 3).
EndsExpr == {"BOOLEAN","FALSE","IDENTIFIER","INTEGER","INTEGER_LITERAL","RIGHT_CURLY","RIGHT_PAREN","TERMINATOR","TRUE","TYPE"}
StartsExpr == {"BOOLEAN","FALSE","IDENTIFIER","IF","INTEGER","INTEGER_LITERAL","LEFT_CURLY","LEFT_PAREN","TERMINATOR","TRUE","TYPE"}

\* ---------------------------------------------------------------------------------------------------
\* The machine.  st = [pos, mode, ts, buf, pend, raw, errs]
\*   mode: "start" | "ident" | "number" | "comment" | "sym1" (a `-` `<` `>` `=` is pending, one character of look-ahead)
InitLex == [pos |-> 0, mode |-> "start", ts |-> 0, buf |-> <<>>, pend |-> "", raw |-> <<>>, errs |-> <<>>]
EmitTok(st, tok) == [st EXCEPT !.raw = Append(@, tok), !.mode = "start", !.buf = <<>>, !.pend = ""]
SingleKindL(id) == CHOOSE k \in SymbolKinds : SymbolSpelling[k] = <<id>>
\* close whatever token is pending at st.pos
Close(st) ==
  CASE st.mode = "ident" -> EmitTok(st, Tok(Classify(st.buf), st.ts, st.pos, st.buf))
    [] st.mode = "number" -> EmitTok(st, Tok("INTEGER_LITERAL", st.ts, st.pos, st.buf))
    [] st.mode = "sym1" -> EmitTok(st, Tok(SingleKindL(st.pend), st.ts, st.pos, <<>>))
    [] OTHER -> [st EXCEPT !.mode = "start"]
LastKind(st) == IF st.raw = <<>> THEN "none" ELSE st.raw[Len(st.raw)].k
\* first character of a token (mode "start")
Fresh(st, ch) ==
  LET adv == [st EXCEPT !.pos = @ + ch.w] IN
  CASE ch.cls = "sym" /\ ch.id \in Single -> EmitTok(adv, Tok(SingleKind(ch.id), st.pos, st.pos + ch.w, <<>>))
    [] ch.cls = "sym" /\ ch.id \in Lookahead -> [adv EXCEPT !.mode = "sym1", !.ts = st.pos, !.pend = ch.id]
    [] ch.cls = "nl" -> IF LastKind(st) \in EndsExpr THEN EmitTok(adv, Tok("NLTERM", st.pos, st.pos + ch.w, <<>>)) ELSE adv
    [] IdStart(ch) -> [adv EXCEPT !.mode = "ident", !.ts = st.pos, !.buf = <<ch.id>>]
    [] ch.cls = "digit" -> [adv EXCEPT !.mode = "number", !.ts = st.pos, !.buf = <<ch.id>>]
    [] ch.cls = "ws" -> adv
    [] ch.cls = "hash" -> [adv EXCEPT !.mode = "comment"]
    [] OTHER -> [adv EXCEPT !.errs = Append(@, [s |-> st.pos, e |-> st.pos + ch.w])]   \* unexpected symbol: reported up to the end of its grapheme cluster
\* an unexpected symbol is reported together with the rest of its grapheme cluster
ExtendErrs(st, ch) == IF ch.gb THEN st ELSE
  [st EXCEPT !.errs = [j \in 1..Len(st.errs) |-> IF st.errs[j].e = st.pos THEN [st.errs[j] EXCEPT !.e = st.pos + ch.w] ELSE st.errs[j]]]
LexStep(st0, ch) ==
  LET st == ExtendErrs(st0, ch) IN
  CASE st.mode = "ident" -> IF IdCont(ch) THEN [st EXCEPT !.buf = Append(@, ch.id), !.pos = @ + ch.w] ELSE Fresh(Close(st), ch)
    [] st.mode = "number" -> IF ch.cls = "digit" THEN [st EXCEPT !.buf = Append(@, ch.id), !.pos = @ + ch.w] ELSE Fresh(Close(st), ch)
    [] st.mode = "comment" -> IF ch.cls = "nl" THEN Fresh([st EXCEPT !.mode = "start"], ch) ELSE [st EXCEPT !.pos = @ + ch.w]   \* a comment ends BEFORE its line break
    [] st.mode = "sym1" -> IF ch.cls = "sym" /\ PairKind(st.pend, ch.id) # "none"
                           THEN EmitTok([st EXCEPT !.pos = @ + ch.w], Tok(PairKind(st.pend, ch.id), st.ts, st.pos + ch.w, <<>>))
                           ELSE Fresh(Close(st), ch)
    [] OTHER -> Fresh(st, ch)
\* second pass: drop line-break terminators at the end of input and before tokens that cannot start an expression
RECURSIVE Filter(_,_)
Filter(raw, i) == IF i > Len(raw) THEN <<>> ELSE
   IF raw[i].k = "NLTERM" /\ ~(i < Len(raw) /\ raw[i+1].k \in StartsExpr) THEN Filter(raw, i+1) ELSE <<raw[i]>> \o Filter(raw, i+1)
LexFinish(st0) == LET st == Close(st0) IN
   IF st.errs # <<>> THEN [ok |-> FALSE, errs |-> st.errs] ELSE [ok |-> TRUE, toks |-> Filter(st.raw, 1)]
RECURSIVE LexFold(_,_,_)
LexFold(st, text, i) == IF i > Len(text) THEN st ELSE LexFold(LexStep(st, text[i]), text, i + 1)
Lex(text) == LexFinish(LexFold(InitLex, text, 1))
RawOf(text) == Close(LexFold(InitLex, text, 1)).raw
\* the `panic!("Two consecutive line break terminators")` of the second pass is unreachable
NoTwoNl(raw) == \A i \in 1..(Len(raw)-1) : ~(raw[i].k = "NLTERM" /\ raw[i+1].k = "NLTERM")

\* ---------------------------------------------------------------------------------------------------
\* Declarative side (C09): what a correct tokenization of `text` is, independent of the machine.
RECURSIVE Offset(_,_)
Offset(text, i) == IF i = 1 THEN 0 ELSE Offset(text, i - 1) + text[i-1].w      \* byte offset of character i (1-based); Offset(text, Len+1) = total width
Total(text) == Offset(text, Len(text) + 1)
Boundaries(text) == { Offset(text, i) : i \in 1..(Len(text) + 1) }
CharAt(text, off) == CHOOSE i \in 1..(Len(text) + 1) : Offset(text, i) = off      \* index of the character starting at byte offset off
IdsBetween(text, s, e) == LET i == CharAt(text, s) j == CharAt(text, e) IN [q \in 1..(j - i) |-> text[i + q - 1].id]
\* a character is inside a comment iff a `#` precedes it on its line; the line break itself is not part of the comment
InComment(text, i) == text[i].cls # "nl" /\ \E j \in 1..(i-1) : text[j].cls = "hash" /\ \A q \in j..(i-1) : text[q].cls # "nl"
IsCommentChar(text, i) == text[i].cls = "hash" \/ InComment(text, i)
Spelling(tok) == IF tok.k \in SymbolKinds THEN SymbolSpelling[tok.k] ELSE tok.v
Partition(text, toks) ==
  /\ \A t \in 1..Len(toks) :
       /\ toks[t].s < toks[t].e /\ toks[t].s \in Boundaries(text) /\ toks[t].e \in Boundaries(text)
       /\ IdsBetween(text, toks[t].s, toks[t].e) = Spelling(toks[t])                        \* exactly the token's own text
       /\ \A i \in CharAt(text, toks[t].s)..(CharAt(text, toks[t].e) - 1) : ~InComment(text, i)
       /\ (t > 1 => toks[t-1].e <= toks[t].s)                                               \* in source order, disjoint
  \* between tokens: only whitespace and comments.  (A line break that did not become a token is whitespace.)
  /\ \A i \in 1..Len(text) :
       (\A t \in 1..Len(toks) : ~(toks[t].s <= Offset(text, i) /\ Offset(text, i) < toks[t].e))
          => (text[i].cls \in {"ws", "nl"} \/ IsCommentChar(text, i))
KeywordsWholeWord(toks) == \A t \in 1..Len(toks) :
  /\ toks[t].k \in KeywordKinds => toks[t].v = KeywordSpelling[toks[t].k]
  /\ toks[t].k = "IDENTIFIER" => \A k \in KeywordKinds : toks[t].v # KeywordSpelling[k]
MaximalMunch(text, toks) == \A t \in 1..Len(toks) :
  LET nxt == CharAt(text, toks[t].e)  prv == CharAt(text, toks[t].s) - 1
      hasNext == nxt <= Len(text)  hasPrev == prv >= 1 IN
  /\ toks[t].k \in KeywordKinds \cup {"IDENTIFIER"} => (hasNext => ~IdCont(text[nxt])) /\ (hasPrev /\ ~IsCommentChar(text, prv) => text[prv].cls \notin {"alpha", "us", "onum"})   \* `1x` is a number followed by an identifier
  /\ toks[t].k = "INTEGER_LITERAL" => (hasNext => text[nxt].cls # "digit") /\ (hasPrev /\ ~IsCommentChar(text, prv) => ~IdCont(text[prv]))
  /\ toks[t].k = "MINUS" => (hasNext => text[nxt].id # ">")
  /\ toks[t].k \in {"LESS_THAN", "GREATER_THAN"} => (hasNext => text[nxt].id # "=")
  /\ toks[t].k = "EQUALS" => (hasNext => text[nxt].id \notin {"=", ">"})
LiteralShape(text, toks) == \A t \in 1..Len(toks) : toks[t].k = "INTEGER_LITERAL" =>
  \A i \in CharAt(text, toks[t].s)..(CharAt(text, toks[t].e) - 1) : text[i].cls = "digit"
\* characters that cannot be part of any token and are not in a comment
\* an "onum" character is legal only as the continuation of an identifier: the run of identifier characters
\* before it must contain a character that can start an identifier
RunStart(text, i) == CHOOSE j \in 1..i : (\A q \in j..i : IdCont(text[q]) /\ ~IsCommentChar(text, q)) /\ (j = 1 \/ ~IdCont(text[j-1]) \/ IsCommentChar(text, j-1))
Unexpected(text, i) == /\ ~IsCommentChar(text, i)
                       /\ \/ text[i].cls = "bad"
                          \/ text[i].cls = "sym" /\ text[i].id \notin Single \cup Lookahead
                          \/ text[i].cls = "onum" /\ ~\E q \in RunStart(text, i)..(i-1) : IdStart(text[q])
ClusterEnd(text, i) == IF \E j \in (i+1)..Len(text) : text[j].gb THEN Offset(text, CHOOSE j \in (i+1)..Len(text) : text[j].gb /\ \A q \in (i+1)..(j-1) : ~text[q].gb) ELSE Total(text)
EveryBadSymbolReported(text, res) ==
  LET bad == { i \in 1..Len(text) : Unexpected(text, i) } IN
  /\ res.ok <=> bad = {}
  /\ ~res.ok => { <<res.errs[j].s, res.errs[j].e>> : j \in 1..Len(res.errs) } = { <<Offset(text, i), ClusterEnd(text, i)>> : i \in bad }
                /\ Len(res.errs) = Cardinality(bad)
Correct(text, res) ==
  /\ EveryBadSymbolReported(text, res)
  /\ res.ok => Partition(text, res.toks) /\ KeywordsWholeWord(res.toks) /\ MaximalMunch(text, res.toks) /\ LiteralShape(text, res.toks)
====
