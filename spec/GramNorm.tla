---- MODULE GramNorm ----
\* Weak-head normalisation (normal order, definitions of the context unfolded on demand) and conversion
\* (src/normalizer.rs normalize_weak_head, src/unifier.rs unify on hole-free terms, src/equality.rs).
\* Contexts are sequences of entries [ty, def | NoDef, len]: `len` is the context length at which the entry's
\* terms are valid; lookup raises them by the difference.  (Deliberately not the code's (term, offset) pairs.)
EXTENDS GramEval
NoDef == [k |-> "nodef"]
Lookup(ctx, i) == ctx[Len(ctx) - i]
EntryTy(ctx, i) == LET e == Lookup(ctx, i) IN Up(e.ty, 0, Len(ctx) - e.len)
EntryDef(ctx, i) == LET e == Lookup(ctx, i) IN IF e.def.k = "nodef" THEN NoDef ELSE Up(e.def, 0, Len(ctx) - e.len)
PushParam(ctx, ty) == Append(ctx, [ty |-> ty, def |-> NoDef, len |-> Len(ctx)])
PushGroup(ctx, defs) == LET n == Len(defs) L == Len(ctx) + n IN ctx \o Mat([j \in 1..n |-> [ty |-> defs[j].ann, def |-> defs[j].def, len |-> L]], n)

\* substitute a whole group away from a term living inside it (every definition unfolded in turn, nothing evaluated)
RECURSIVE ElimGroup(_,_)
ElimGroup(defs, body) ==
  IF Len(defs) = 0 THEN body ELSE LET e == ElimAt(LetT(defs, body), 1) IN ElimGroup(e.defs, e.b)

OutOfFuel == [ok |-> FALSE]
W(t, f) == [ok |-> TRUE, t |-> t, f |-> f]
RECURSIVE Whnf(_,_,_)
Whnf(t, ctx, f) ==
  IF f = 0 THEN OutOfFuel ELSE
  CASE t.k = "var" -> IF t.i >= Len(ctx) THEN W(t, f) ELSE LET d == EntryDef(ctx, t.i) IN IF d.k = "nodef" THEN W(t, f) ELSE Whnf(d, ctx, f - 1)
    [] t.k = "app" -> LET fa == Whnf(t.a, ctx, f - 1) IN IF ~fa.ok THEN OutOfFuel ELSE
                      IF fa.t.k = "lam" THEN Whnf(Open(fa.t.b, 0, t.b, 0), ctx, fa.f) ELSE W([t EXCEPT !.a = fa.t], fa.f)
    [] t.k = "let" -> Whnf(ElimGroup(t.defs, t.b), ctx, f - 1)
    [] t.k = "neg" -> LET fa == Whnf(t.a, ctx, f - 1) IN IF ~fa.ok THEN OutOfFuel ELSE
                      IF fa.t.k = "lit" THEN W(Lit(Neg(fa.t.v)), fa.f) ELSE W([t EXCEPT !.a = fa.t], fa.f)
    [] t.k = "bin" -> LET fa == Whnf(t.a, ctx, f - 1) IN IF ~fa.ok THEN OutOfFuel ELSE
                      LET fb == Whnf(t.b, ctx, fa.f) IN IF ~fb.ok THEN OutOfFuel ELSE
                      IF fa.t.k = "lit" /\ fb.t.k = "lit" THEN
                         LET r == PrimRes(t.op, fa.t.v, fb.t.v) IN IF r.r = "step" THEN W(r.t, fb.f) ELSE W([t EXCEPT !.a = fa.t, !.b = fb.t], fb.f)
                      ELSE W([t EXCEPT !.a = fa.t, !.b = fb.t], fb.f)
    [] t.k = "if" -> LET fc == Whnf(t.c, ctx, f - 1) IN IF ~fc.ok THEN OutOfFuel ELSE
                     IF fc.t.k = "true" THEN Whnf(t.a, ctx, fc.f) ELSE IF fc.t.k = "false" THEN Whnf(t.b, ctx, fc.f) ELSE W([t EXCEPT !.c = fc.t], fc.f)
    [] OTHER -> W(t, f)

\* full normal form (weak-head normalise, then normalise every subterm; under a binder the parameter is opaque)
RECURSIVE Nf(_,_,_)
Nf(t, ctx, f) ==
  LET w == Whnf(t, ctx, f) IN IF ~w.ok THEN OutOfFuel ELSE
  LET h == w.t  g == w.f IN
  CASE h.k \in {"lam","pi"} -> LET a == Nf(h.a, ctx, g) IN IF ~a.ok THEN OutOfFuel ELSE
                               LET b == Nf(h.b, PushParam(ctx, h.a), a.f) IN IF ~b.ok THEN OutOfFuel ELSE W([h EXCEPT !.a = a.t, !.b = b.t], b.f)
    [] h.k \in {"app","bin"} -> LET a == Nf(h.a, ctx, g) IN IF ~a.ok THEN OutOfFuel ELSE
                               LET b == Nf(h.b, ctx, a.f) IN IF ~b.ok THEN OutOfFuel ELSE W([h EXCEPT !.a = a.t, !.b = b.t], b.f)
    [] h.k = "neg" -> LET a == Nf(h.a, ctx, g) IN IF ~a.ok THEN OutOfFuel ELSE W([h EXCEPT !.a = a.t], a.f)
    [] h.k = "if" -> LET c == Nf(h.c, ctx, g) IN IF ~c.ok THEN OutOfFuel ELSE
                     LET a == Nf(h.a, ctx, c.f) IN IF ~a.ok THEN OutOfFuel ELSE
                     LET b == Nf(h.b, ctx, a.f) IN IF ~b.ok THEN OutOfFuel ELSE W([h EXCEPT !.c = c.t, !.a = a.t, !.b = b.t], b.f)
    [] OTHER -> W(h, g)

\* conversion: [r |-> "yes" | "no" | "fuel", f]; lambda annotations are ignored
CR(r, f) == [r |-> r, f |-> f]
RECURSIVE Conv(_,_,_,_)
Conv(x, y, ctx, f) ==
  IF Same(x, y) THEN CR("yes", f) ELSE
  LET wx == Whnf(x, ctx, f) IN IF ~wx.ok THEN CR("fuel", 0) ELSE
  LET wy == Whnf(y, ctx, wx.f) IN IF ~wy.ok THEN CR("fuel", 0) ELSE
  LET a == wx.t b == wy.t g == wy.f IN
  IF a.k # b.k THEN CR("no", g) ELSE
  CASE a.k = "var" -> CR(IF a.i = b.i THEN "yes" ELSE "no", g)
    [] a.k = "hole" -> CR(IF a.id = b.id /\ a.sh = b.sh THEN "yes" ELSE "no", g)
    [] a.k = "lit" -> CR(IF a.v = b.v THEN "yes" ELSE "no", g)
    [] a.k = "lam" -> IF a.imp # b.imp THEN CR("no", g) ELSE Conv(a.b, b.b, PushParam(ctx, a.a), g)
    [] a.k = "pi" -> IF a.imp # b.imp THEN CR("no", g) ELSE
                     LET c1 == Conv(a.a, b.a, ctx, g) IN IF c1.r # "yes" THEN c1 ELSE Conv(a.b, b.b, PushParam(ctx, a.a), c1.f)
    [] a.k = "app" -> LET c1 == Conv(a.a, b.a, ctx, g) IN IF c1.r # "yes" THEN c1 ELSE Conv(a.b, b.b, ctx, c1.f)
    [] a.k = "bin" -> IF a.op # b.op THEN CR("no", g) ELSE LET c1 == Conv(a.a, b.a, ctx, g) IN IF c1.r # "yes" THEN c1 ELSE Conv(a.b, b.b, ctx, c1.f)
    [] a.k = "neg" -> Conv(a.a, b.a, ctx, g)
    [] a.k = "if" -> LET c1 == Conv(a.c, b.c, ctx, g) IN IF c1.r # "yes" THEN c1 ELSE
                     LET c2 == Conv(a.a, b.a, ctx, c1.f) IN IF c2.r # "yes" THEN c2 ELSE Conv(a.b, b.b, ctx, c2.f)
    [] OTHER -> CR("yes", g)
====
