---- MODULE MC_Programs ----
\* All well-scoped programs up to MaxSize (C01 - C06, C18, C19 share this enumeration).
\* M: design-level theorems checked by TLC on every program:
\*      Progress      (C01)  well typed + definition-order rule  =>  never stuck except division by zero
\*      Preservation  (C04)  every step of a well-typed program keeps its type (up to conversion)
\*      SemAgree      (C02)  the small-step machine and the independent big-step semantics agree
\* G: one line per program with the prescribed verdicts, type, and outcome, for replay into the real pipeline.
EXTENDS GramBuild, GramTyping, GramSem, Json
CONSTANTS RunFuel, TyFuel, EmitHoles
T == Built
\* a group written directly as the body of a group is one flattened group in the concrete syntax: excluded, the
\* multi-definition formers cover it
RECURSIVE Flat(_)
Flat(t) ==
  CASE t.k \in {"lam","pi","app","bin"} -> Flat(t.a) /\ Flat(t.b)
    [] t.k = "neg" -> Flat(t.a)
    [] t.k = "if" -> Flat(t.c) /\ Flat(t.a) /\ Flat(t.b)
    [] t.k = "let" -> t.b.k # "let" /\ Flat(t.b) /\ \A j \in 1..Len(t.defs) : Flat(t.defs[j].ann) /\ Flat(t.defs[j].def)
    [] OTHER -> TRUE
\* the definition-order verdict; "open" where checking or not checking annotations makes a difference
RECURSIVE DefOrderLoose(_)
DefOrderLoose(t) ==
  CASE t.k \in {"lam","pi","app","bin"} -> DefOrderLoose(t.a) /\ DefOrderLoose(t.b)
    [] t.k = "neg" -> DefOrderLoose(t.a)
    [] t.k = "if" -> DefOrderLoose(t.c) /\ DefOrderLoose(t.a) /\ DefOrderLoose(t.b)
    [] t.k = "let" -> GroupErrors(t.defs) = {} /\ DefOrderLoose(t.b) /\ \A j \in 1..Len(t.defs) : DefOrderLoose(t.defs[j].def)
    [] OTHER -> TRUE
DOrd(t) == IF DefOrderOK(t) THEN "ok" ELSE IF DefOrderLoose(t) THEN "open" ELSE "bad"
Accepts(t) == LET i == Infer(t, <<>>, TyFuel) IN i.r = "ok" /\ DefOrderLoose(t)

Progress == (Done /\ ~HasHole(T)) => (Accepts(T) => LET o == Outcome(T, RunFuel) IN o.o \notin {"unavailable", "not-a-function", "wrong-kind", "hole", "free-variable"})
RECURSIVE PreservedAlong(_,_,_)
PreservedAlong(t, ty, k) == IF k = 0 THEN TRUE ELSE
   LET s == Step(t) IN IF s.r # "step" THEN TRUE ELSE
   LET i == Infer(s.t, <<>>, TyFuel) IN
   /\ i.r # "ill"
   /\ (i.r = "ok" => Conv(i.ty, ty, <<>>, TyFuel).r # "no")
   /\ PreservedAlong(s.t, ty, k - 1)
Preservation == (Done /\ ~HasHole(T)) => LET i == Infer(T, <<>>, TyFuel) IN (i.r = "ok" /\ DefOrderLoose(T)) => PreservedAlong(T, i.ty, 6)
SemAgree == (Done /\ ~HasHole(T)) => (Accepts(T) => SemAgrees(T, RunFuel, 6 * RunFuel))

Verdict(t) == LET i == Infer(t, <<>>, TyFuel) IN
   [ty |-> i.r, why |-> (IF i.r = "ill" THEN i.why ELSE ""), tyT |-> (IF i.r = "ok" THEN i.ty ELSE TType), dord |-> DOrd(t),
    out |-> (IF i.r = "ok" /\ DefOrderLoose(t) THEN (LET e == Run(t, RunFuel) IN [r |-> e.r, t |-> e.t, why |-> (IF e.r = "end" THEN StuckReason(e.t) ELSE "fuel")]) ELSE [r |-> "na"])]
Emit == (Done /\ Flat(T)) =>
   IF HasHole(T) THEN (EmitHoles => PrintT(<<"PROG", ToJson([t |-> T, holes |-> TRUE])>>))
   ELSE PrintT(<<"PROG", ToJson([t |-> T, holes |-> FALSE, v |-> Verdict(T)])>>)
====
