---- MODULE GramInt ----
\* Exact integers as sign-magnitude limb sequences, base 10000, least significant limb first.
\* [s |-> -1|0|1, m |-> <<limbs>>], zero is [s |-> 0, m |-> <<0>>].
EXTENDS Naturals, Integers, Sequences, TLC
LOCAL B == 10000

RECURSIVE TrimM(_)
TrimM(m) == IF Len(m) > 1 /\ m[Len(m)] = 0 THEN TrimM(SubSeq(m, 1, Len(m)-1)) ELSE m
Norm(s, m) == LET t == TrimM(m) IN IF t = <<0>> THEN [s |-> 0, m |-> <<0>>] ELSE [s |-> s, m |-> t]
Zero == [s |-> 0, m |-> <<0>>]
OfSmall(n) == IF n = 0 THEN Zero ELSE
              LET a == IF n < 0 THEN -n ELSE n IN
              Norm(IF n < 0 THEN -1 ELSE 1, << a % B, (a \div B) % B, a \div (B*B) >>)

At(m, i) == IF i <= Len(m) THEN m[i] ELSE 0
Max(a, b) == IF a > b THEN a ELSE b

\* magnitude comparison: -1, 0, 1
RECURSIVE CmpMFrom(_,_,_)
CmpMFrom(a, b, i) == IF i = 0 THEN 0 ELSE IF At(a,i) < At(b,i) THEN -1 ELSE IF At(a,i) > At(b,i) THEN 1 ELSE CmpMFrom(a, b, i-1)
CmpM(a, b) == CmpMFrom(a, b, Max(Len(a), Len(b)))

RECURSIVE AddMFrom(_,_,_,_,_)
AddMFrom(a, b, i, carry, n) == IF i > n THEN (IF carry = 0 THEN <<>> ELSE <<carry>>)
   ELSE LET x == At(a,i) + At(b,i) + carry IN << x % B >> \o AddMFrom(a, b, i+1, x \div B, n)
AddM(a, b) == AddMFrom(a, b, 1, 0, Max(Len(a), Len(b)))

\* a - b for |a| >= |b|
RECURSIVE SubMFrom(_,_,_,_,_)
SubMFrom(a, b, i, borrow, n) == IF i > n THEN <<>>
   ELSE LET x == At(a,i) - At(b,i) - borrow IN
        IF x < 0 THEN << x + B >> \o SubMFrom(a, b, i+1, 1, n) ELSE << x >> \o SubMFrom(a, b, i+1, 0, n)
SubM(a, b) == TrimM(SubMFrom(a, b, 1, 0, Len(a)))

RECURSIVE MulLimbFrom(_,_,_,_)
MulLimbFrom(a, d, i, carry) == IF i > Len(a) THEN (IF carry = 0 THEN <<>> ELSE <<carry>>)
   ELSE LET x == a[i] * d + carry IN << x % B >> \o MulLimbFrom(a, d, i+1, x \div B)
RECURSIVE MulMFrom(_,_,_)
MulMFrom(a, b, j) == IF j > Len(b) THEN <<0>>
   ELSE AddM(MulLimbFrom(a, b[j], 1, 0), <<0>> \o MulMFrom(a, b, j+1))
MulM(a, b) == TrimM(MulMFrom(a, b, 1))

Neg(x) == [s |-> -x.s, m |-> x.m]
Add(x, y) == IF x.s = 0 THEN y ELSE IF y.s = 0 THEN x
             ELSE IF x.s = y.s THEN Norm(x.s, AddM(x.m, y.m))
             ELSE LET c == CmpM(x.m, y.m) IN
                  IF c = 0 THEN Zero ELSE IF c > 0 THEN Norm(x.s, SubM(x.m, y.m)) ELSE Norm(y.s, SubM(y.m, x.m))
Sub(x, y) == Add(x, Neg(y))
Mul(x, y) == IF x.s = 0 \/ y.s = 0 THEN Zero ELSE Norm(x.s * y.s, MulM(x.m, y.m))
Cmp(x, y) == IF x.s # y.s THEN (IF x.s < y.s THEN -1 ELSE 1)
             ELSE IF x.s = 0 THEN 0 ELSE IF x.s = 1 THEN CmpM(x.m, y.m) ELSE CmpM(y.m, x.m)
\* q is the quotient of a by b truncated toward zero iff a = q*b + r with |r| < |b| and (r = 0 or sign r = sign a)
IsTruncQuot(a, b, q) == /\ b.s # 0
                        /\ LET r == Sub(a, Mul(q, b)) IN CmpM(r.m, b.m) < 0 /\ (r.s = 0 \/ r.s = a.s)

\* ---- division of magnitudes (schoolbook, one limb of quotient at a time, digit by binary search)
RECURSIVE FindDigit(_,_,_,_)
\* largest d in lo..hi with d*b <= r   (invariant: lo*b <= r)
FindDigit(r, b, lo, hi) == IF lo = hi THEN lo
   ELSE LET mid == (lo + hi + 1) \div 2 IN
        IF CmpM(MulLimbFrom(b, mid, 1, 0), r) <= 0 THEN FindDigit(r, b, mid, hi) ELSE FindDigit(r, b, lo, mid - 1)
RECURSIVE DivMFrom(_,_,_,_)
\* process limbs of a from most significant (index i) down to 1; rem is current remainder magnitude
\* returns [q |-> limbs (least significant first), r |-> remainder]
DivMFrom(a, b, i, rem) == IF i = 0 THEN [q |-> <<>>, r |-> rem]
   ELSE LET cur == TrimM(<<a[i]>> \o rem)
            d == FindDigit(cur, b, 0, B - 1)
            nr == IF d = 0 THEN cur ELSE SubM(cur, TrimM(MulLimbFrom(b, d, 1, 0)))
            rest == DivMFrom(a, b, i - 1, nr)
        IN [q |-> rest.q \o <<d>>, r |-> rest.r]
DivM(a, b) == LET res == DivMFrom(a, b, Len(a), <<0>>) IN TrimM(res.q)
\* truncated division; undefined (caller checks) when b is zero
Quot(x, y) == IF x.s = 0 THEN Zero ELSE Norm(x.s * y.s, DivM(x.m, y.m))

\* decimal digit strings (sequences of "0".."9", most significant first) -> exact integer (Horner)
DigitVal(id) == CHOOSE d \in 0..9 : ToString(d) = id
Ten == [s |-> 1, m |-> <<10>>]
RECURSIVE DigitsFrom(_,_,_)
DigitsFrom(ds, i, acc) == IF i > Len(ds) THEN acc ELSE DigitsFrom(ds, i + 1, Add(Mul(acc, Ten), OfSmall(DigitVal(ds[i]))))
DigitsToInt(ds) == DigitsFrom(ds, 1, Zero)

WellFormed(x) == /\ x.s \in {-1,0,1} /\ Len(x.m) >= 1 /\ \A i \in 1..Len(x.m) : x.m[i] \in 0..(B-1)
                 /\ (x.s = 0 <=> x.m = <<0>>) /\ (Len(x.m) > 1 => x.m[Len(x.m)] # 0)
====
