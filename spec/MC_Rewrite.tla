---- MODULE MC_Rewrite ----
\* C19, design level: on every accepted program up to MaxSize every enabled rewrite keeps the program accepted (by the
\* specification's typing and definition-order rules) and keeps its outcome; each (program, rewritten programs) family
\* is emitted for the real pipeline.  A second rewrite is applied on top of each first one (chains of length 2).
EXTENDS GramBuild, GramRewrite, Json
CONSTANTS RunFuel, TyFuel
T == Built
Acc(t) == LET i == Infer(t, <<>>, TyFuel) IN i.r = "ok" /\ DefOrderOK(t)
Out(t) == LET e == Run(t, RunFuel) IN IF e.r = "fuel" THEN [o |-> "fuel"] ELSE [o |-> "end", t |-> e.t]
SameOut(a, b) == a.o = "fuel" \/ b.o = "fuel" \/ (IsValue(a.t) = IsValue(b.t) /\ (IsValue(a.t) => (a.t.k = b.t.k /\ (a.t.k \in {"lit"} => a.t.v = b.t.v))))
Preserved == (Done /\ ~HasHole(T) /\ Acc(T)) => \A r \in Rewrites(T) :
   LET i == Infer(r.t, <<>>, TyFuel) IN i.r # "ill" /\ DefOrderOK(r.t) /\ (i.r = "ok" => SameOut(Out(T), Out(r.t)))
Second(t) == {[rule |-> "add-unused-definition", t |-> AddUnused(t)], [rule |-> "if-true", t |-> IfTrueAt(t, [pos |-> <<>>, sub |-> t, d |-> 0])]}
Emit == (Done /\ ~HasHole(T) /\ Acc(T)) =>
   PrintT(<<"REWRITE", ToJson([t |-> T, rs |-> Rewrites(T) \cup UNION { { [rule |-> r.rule \o "+" \o r2.rule, t |-> r2.t] : r2 \in Second(r.t) } : r \in { x \in Rewrites(T) : x.rule \in {"name-subexpression", "reorder-functions", "identity-function"} } }])>>)
====
