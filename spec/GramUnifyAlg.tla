---- MODULE GramUnifyAlg ----
\* The unification ALGORITHM of src/unifier.rs (with the weak-head normaliser of src/normalizer.rs as it behaves on terms
\* that contain holes), as functions that thread the hole store.  The declarative predicates of GramUnify say what a
\* success must mean; this module says how the code gets there, so that TLC can check the algorithm against the predicates
\* on every bounded input (MC_UnifyAlg) and show WHERE the design fails.
\* The code's deliberate deviation is named: OpenS allocates a FRESH hole for every unsolved hole it passes
\* (src/de_bruijn.rs open, unresolved-Unifier arm); `fresh` counts those allocations.  With CopyHoles = FALSE the same
\* functions model the intended design (the hole is kept, its shift lowered), for which the predicates hold.
EXTENDS GramUnify
CONSTANT CopyHoles
\* a store is a sequence: st[id] = solution term or Unsolved.  S(t, st, fresh) results carry the store and the number of copies
R3(t, st, n) == [t |-> t, st |-> st, n |-> n]
\* raising a term SEES THROUGH solved holes (signed_shift replaces a solved hole by its solution, raised by the hole's shift, and
\* goes on inside it): a solved hole whose own shift is below the cutoff still has free variables that must move
UpS(t, c, s, st) == LET r == Res(t, st, 60) IN Up(IF r.ok THEN r.t ELSE t, c, s)
EntryDefS(ctx, i, st) == LET e == Lookup(ctx, i) IN IF e.def.k = "nodef" THEN NoDef ELSE UpS(e.def, 0, Len(ctx) - e.len, st)
EntryTyS(ctx, i, st) == LET e == Lookup(ctx, i) IN UpS(e.ty, 0, Len(ctx) - e.len, st)
RECURSIVE OpenS(_,_,_,_,_,_)
OpenS(t, i, u, s, st, n) ==
  CASE t.k = "var" -> R3(IF t.i = i THEN UpS(u, 0, s, st) ELSE IF t.i > i THEN [t EXCEPT !.i = t.i - 1] ELSE t, st, n)
    [] t.k = "hole" ->
         IF t.id <= Len(st) /\ st[t.id].k # "none" THEN OpenS(UpS(st[t.id], 0, t.sh, st), i, u, s, st, n)
         ELSE LET sh2 == IF t.sh > i THEN t.sh - 1 ELSE t.sh IN
              IF CopyHoles THEN R3(Hole(Len(st) + 1, sh2), Append(st, Unsolved), n + 1)       \* OpenHoleFresh
              ELSE R3(Hole(t.id, sh2), st, n)
    [] t.k \in {"lam","pi"} -> LET a == OpenS(t.a, i, u, s, st, n)  b == OpenS(t.b, i + 1, u, s + 1, a.st, a.n) IN R3([t EXCEPT !.a = a.t, !.b = b.t], b.st, b.n)
    [] t.k \in {"app","bin"} -> LET a == OpenS(t.a, i, u, s, st, n)  b == OpenS(t.b, i, u, s, a.st, a.n) IN R3([t EXCEPT !.a = a.t, !.b = b.t], b.st, b.n)
    [] t.k = "neg" -> LET a == OpenS(t.a, i, u, s, st, n) IN R3([t EXCEPT !.a = a.t], a.st, a.n)
    [] t.k = "if" -> LET c == OpenS(t.c, i, u, s, st, n)  a == OpenS(t.a, i, u, s, c.st, c.n)  b == OpenS(t.b, i, u, s, a.st, a.n) IN R3([t EXCEPT !.c = c.t, !.a = a.t, !.b = b.t], b.st, b.n)
    [] t.k = "let" ->
         LET m == Len(t.defs)
             RECURSIVE go(_,_,_)
             go(j, st1, n1) == IF j > m THEN [ds |-> <<>>, st |-> st1, n |-> n1] ELSE
                 LET an == OpenS(t.defs[j].ann, i + m, u, s + m, st1, n1)  df == OpenS(t.defs[j].def, i + m, u, s + m, an.st, an.n)
                     rest == go(j + 1, df.st, df.n)
                 IN [ds |-> <<[t.defs[j] EXCEPT !.ann = an.t, !.def = df.t]>> \o rest.ds, st |-> rest.st, n |-> rest.n]
             ds == go(1, st, n)
             b == OpenS(t.b, i + m, u, s + m, ds.st, ds.n)
         IN R3([t EXCEPT !.defs = ds.ds, !.b = b.t], b.st, b.n)
    [] OTHER -> R3(t, st, n)
\* eliminate a group by unfolding its definitions in turn (as the normaliser does), threading the store
RECURSIVE ElimS(_,_,_,_)
ElimS(defs, body, st, n) ==
  IF Len(defs) = 0 THEN R3(body, st, n) ELSE
  LET m == Len(defs)  d == defs[1]  idx == m - 1
      self == [k |-> "var", i |-> 0, n |-> d.n]
      a1 == OpenS(UpS(d.ann, 0, 1, st), idx + 1, self, 0, st, n)
      d1 == OpenS(UpS(d.def, 0, 1, a1.st), idx + 1, self, 0, a1.st, a1.n)
      u == OpenS(d.def, idx, LetT(<<[n |-> d.n, ann |-> a1.t, def |-> d1.t]>>, self), 0, d1.st, d1.n)
      RECURSIVE go(_,_,_)
      go(j, st1, n1) == IF j > m THEN [ds |-> <<>>, st |-> st1, n |-> n1] ELSE
          LET an == OpenS(defs[j].ann, idx, u.t, 0, st1, n1)  df == OpenS(defs[j].def, idx, u.t, 0, an.st, an.n)  rest == go(j + 1, df.st, df.n)
          IN [ds |-> <<[defs[j] EXCEPT !.ann = an.t, !.def = df.t]>> \o rest.ds, st |-> rest.st, n |-> rest.n]
      ds == go(2, u.st, u.n)
      b == OpenS(body, idx, u.t, 0, ds.st, ds.n)
  IN ElimS(ds.ds, b.t, b.st, b.n)
\* weak-head normal form with holes: [ok, t, st, n, f]
W5(t, st, n, f) == [ok |-> TRUE, t |-> t, st |-> st, n |-> n, f |-> f]
NoFuel == [ok |-> FALSE]
RECURSIVE WhnfS(_,_,_,_,_)
WhnfS(t, ctx, st, n, f) ==
  IF f = 0 THEN NoFuel ELSE
  CASE t.k = "hole" -> IF t.id <= Len(st) /\ st[t.id].k # "none" THEN WhnfS(UpS(st[t.id], 0, t.sh, st), ctx, st, n, f - 1) ELSE W5(t, st, n, f)
    [] t.k = "var" -> IF t.i >= Len(ctx) THEN W5(t, st, n, f) ELSE LET d == EntryDefS(ctx, t.i, st) IN IF d.k = "nodef" THEN W5(t, st, n, f) ELSE WhnfS(d, ctx, st, n, f - 1)
    [] t.k = "app" -> LET fa == WhnfS(t.a, ctx, st, n, f - 1) IN IF ~fa.ok THEN NoFuel ELSE
                      IF fa.t.k = "lam" THEN LET o == OpenS(fa.t.b, 0, t.b, 0, fa.st, fa.n) IN WhnfS(o.t, ctx, o.st, o.n, fa.f)
                      ELSE W5([t EXCEPT !.a = fa.t], fa.st, fa.n, fa.f)
    [] t.k = "let" -> LET e == ElimS(t.defs, t.b, st, n) IN WhnfS(e.t, ctx, e.st, e.n, f - 1)
    [] t.k = "neg" -> LET fa == WhnfS(t.a, ctx, st, n, f - 1) IN IF ~fa.ok THEN NoFuel ELSE
                      IF fa.t.k = "lit" THEN W5(Lit(Neg(fa.t.v)), fa.st, fa.n, fa.f) ELSE W5([t EXCEPT !.a = fa.t], fa.st, fa.n, fa.f)
    [] t.k = "bin" -> LET fa == WhnfS(t.a, ctx, st, n, f - 1) IN IF ~fa.ok THEN NoFuel ELSE
                      LET fb == WhnfS(t.b, ctx, fa.st, fa.n, fa.f) IN IF ~fb.ok THEN NoFuel ELSE
                      IF fa.t.k = "lit" /\ fb.t.k = "lit" THEN
                         LET r == PrimRes(t.op, fa.t.v, fb.t.v) IN IF r.r = "step" THEN W5(r.t, fb.st, fb.n, fb.f) ELSE W5([t EXCEPT !.a = fa.t, !.b = fb.t], fb.st, fb.n, fb.f)
                      ELSE W5([t EXCEPT !.a = fa.t, !.b = fb.t], fb.st, fb.n, fb.f)
    [] t.k = "if" -> LET fc == WhnfS(t.c, ctx, st, n, f - 1) IN IF ~fc.ok THEN NoFuel ELSE
                     IF fc.t.k = "true" THEN WhnfS(t.a, ctx, fc.st, fc.n, fc.f) ELSE IF fc.t.k = "false" THEN WhnfS(t.b, ctx, fc.st, fc.n, fc.f)
                     ELSE W5([t EXCEPT !.c = fc.t], fc.st, fc.n, fc.f)
    [] OTHER -> W5(t, st, n, f)
\* unsolved holes of a term, following solutions (for the occurs check)
RECURSIVE HolesOf(_,_,_)
HolesOf(t, st, f) ==
  IF f = 0 THEN {} ELSE
  CASE t.k = "hole" -> IF t.id <= Len(st) /\ st[t.id].k # "none" THEN HolesOf(st[t.id], st, f - 1) ELSE {t.id}
    [] t.k \in {"lam","pi","app","bin"} -> HolesOf(t.a, st, f) \cup HolesOf(t.b, st, f)
    [] t.k = "neg" -> HolesOf(t.a, st, f)
    [] t.k = "if" -> HolesOf(t.c, st, f) \cup HolesOf(t.a, st, f) \cup HolesOf(t.b, st, f)
    [] t.k = "let" -> HolesOf(t.b, st, f) \cup UNION { HolesOf(t.defs[j].ann, st, f) \cup HolesOf(t.defs[j].def, st, f) : j \in 1..Len(t.defs) }
    [] OTHER -> {}
\* identity modulo names and lambda annotations, seeing through solved holes (src/equality.rs)
RECURSIVE SameS(_,_,_,_)
SameS(x, y, st, f) ==
  IF f = 0 THEN FALSE ELSE
  IF x.k = "hole" /\ x.id <= Len(st) /\ st[x.id].k # "none" THEN SameS(UpS(st[x.id], 0, x.sh, st), y, st, f - 1) ELSE
  IF y.k = "hole" /\ y.id <= Len(st) /\ st[y.id].k # "none" THEN SameS(x, UpS(st[y.id], 0, y.sh, st), st, f - 1) ELSE
  /\ x.k = y.k
  /\ CASE x.k = "var" -> x.i = y.i
       [] x.k = "hole" -> x.id = y.id /\ x.sh = y.sh
       [] x.k = "lit" -> x.v = y.v
       [] x.k = "lam" -> x.imp = y.imp /\ SameS(x.b, y.b, st, f)
       [] x.k = "pi" -> x.imp = y.imp /\ SameS(x.a, y.a, st, f) /\ SameS(x.b, y.b, st, f)
       [] x.k = "app" -> SameS(x.a, y.a, st, f) /\ SameS(x.b, y.b, st, f)
       [] x.k = "bin" -> x.op = y.op /\ SameS(x.a, y.a, st, f) /\ SameS(x.b, y.b, st, f)
       [] x.k = "neg" -> SameS(x.a, y.a, st, f)
       [] x.k = "if" -> SameS(x.c, y.c, st, f) /\ SameS(x.a, y.a, st, f) /\ SameS(x.b, y.b, st, f)
       [] x.k = "let" -> Len(x.defs) = Len(y.defs) /\ (\A j \in 1..Len(x.defs) : SameS(x.defs[j].def, y.defs[j].def, st, f)) /\ SameS(x.b, y.b, st, f)
       [] OTHER -> TRUE
\* the algorithm: [r |-> "yes" | "no" | "fuel", st, n, f]
U4(r, st, n, f) == [r |-> r, st |-> st, n |-> n, f |-> f]
\* lowering a candidate solution by the hole's shift sees through holes that are already solved (signed_shift follows them)
LowS(t, sh, st) == LET r == Res(t, st, 40) IN IF ~r.ok THEN [ok |-> FALSE] ELSE Shift(r.t, 0, -sh)
Solve(id, sh, other, st, n, f) ==
  LET low == LowS(other, sh, st) IN
  IF ~low.ok THEN U4("no", st, n, f)                                           \* lowering fails: not solvable
  ELSE IF id \in HolesOf(other, st, 40) THEN U4("no", st, n, f)                \* occurs check
  ELSE U4("yes", [j \in 1..Len(st) |-> IF j = id THEN low.t ELSE st[j]], n, f)
RECURSIVE UnifyA(_,_,_,_,_,_)
UnifyA(x, y, ctx, st, n, f) ==
  IF f = 0 THEN U4("fuel", st, n, 0) ELSE
  IF SameS(x, y, st, 40) THEN U4("yes", st, n, f) ELSE
  LET wx == WhnfS(x, ctx, st, n, f) IN IF ~wx.ok THEN U4("fuel", st, n, 0) ELSE
  LET wy == WhnfS(y, ctx, wx.st, wx.n, wx.f) IN IF ~wy.ok THEN U4("fuel", st, n, 0) ELSE
  LET a == wx.t  b == wy.t  s1 == wy.st  n1 == wy.n  g == wy.f - 1 IN
  IF a.k = "hole" /\ b.k = "hole" /\ a.id = b.id /\ a.sh = b.sh THEN U4("yes", s1, n1, g)
  ELSE IF a.k = "hole" /\ LowS(b, a.sh, s1).ok THEN Solve(a.id, a.sh, b, s1, n1, g)
  ELSE IF b.k = "hole" /\ LowS(a, b.sh, s1).ok THEN Solve(b.id, b.sh, a, s1, n1, g)
  ELSE IF a.k # b.k THEN U4("no", s1, n1, g)
  ELSE
  CASE a.k = "var" -> U4(IF a.i = b.i THEN "yes" ELSE "no", s1, n1, g)
    [] a.k = "lit" -> U4(IF a.v = b.v THEN "yes" ELSE "no", s1, n1, g)
    [] a.k = "lam" -> IF a.imp # b.imp THEN U4("no", s1, n1, g) ELSE UnifyA(a.b, b.b, PushParam(ctx, a.a), s1, n1, g)
    [] a.k = "pi" -> IF a.imp # b.imp THEN U4("no", s1, n1, g) ELSE
                     LET c1 == UnifyA(a.a, b.a, ctx, s1, n1, g) IN IF c1.r # "yes" THEN c1 ELSE UnifyA(a.b, b.b, PushParam(ctx, a.a), c1.st, c1.n, c1.f)
    [] a.k = "app" -> LET c1 == UnifyA(a.a, b.a, ctx, s1, n1, g) IN IF c1.r # "yes" THEN c1 ELSE UnifyA(a.b, b.b, ctx, c1.st, c1.n, c1.f)
    [] a.k = "bin" -> IF a.op # b.op THEN U4("no", s1, n1, g) ELSE
                      LET c1 == UnifyA(a.a, b.a, ctx, s1, n1, g) IN IF c1.r # "yes" THEN c1 ELSE UnifyA(a.b, b.b, ctx, c1.st, c1.n, c1.f)
    [] a.k = "neg" -> UnifyA(a.a, b.a, ctx, s1, n1, g)
    [] a.k = "if" -> LET c1 == UnifyA(a.c, b.c, ctx, s1, n1, g) IN IF c1.r # "yes" THEN c1 ELSE
                     LET c2 == UnifyA(a.a, b.a, ctx, c1.st, c1.n, c1.f) IN IF c2.r # "yes" THEN c2 ELSE UnifyA(a.b, b.b, ctx, c2.st, c2.n, c2.f)
    [] a.k = "hole" -> U4("no", s1, n1, g)
    [] OTHER -> U4("yes", s1, n1, g)
====
