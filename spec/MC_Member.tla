---- MODULE MC_Member ----
\* Membership in the language of grammar.y for token strings beyond the bound of the exhaustive enumeration: the
\* leftmost-derivation machine of GramGrammar, pruned to sentential forms whose terminal prefix matches the target and whose
\* minimal yield fits.  One TLC run decides all targets of a file; a target that is reached is printed as MEMBER.
EXTENDS Naturals, Sequences, FiniteSets, TLC, GrammarY, Json, IOUtils
Targets == ndJsonDeserialize(IOEnv.TARGETS)
VARIABLES tid, tgt, form
MinLen(s) == IF s = "let_annotation" THEN 0 ELSE 1
RECURSIVE SumMin(_)
SumMin(f) == IF f = <<>> THEN 0 ELSE MinLen(Head(f)) + SumMin(Tail(f))
RECURSIVE FirstNT(_,_)
FirstNT(f, i) == IF i > Len(f) THEN 0 ELSE IF f[i] \in Nonterminals THEN i ELSE FirstNT(f, i+1)
\* the terminals before the first nonterminal (all of them when the form is complete) match the target
PrefixOK(f, y) == LET i == FirstNT(f, 1)  k == IF i = 0 THEN Len(f) ELSE i - 1 IN
   /\ k <= Len(y) /\ \A j \in 1..k : f[j] = y[j]
   /\ (i = 0 => Len(f) = Len(y))
\* every terminal already in the form must occur at least as often in the target (cheap necessary condition that prunes
\* productions introducing tokens the target does not have)
Count(f, k) == Cardinality({ j \in 1..Len(f) : f[j] = k })
KindsOK(f, y) == \A j \in 1..Len(f) : f[j] \in Nonterminals \/ Count(f, f[j]) <= Count(y, f[j])
Init == \E k \in 1..Len(Targets) : tid = Targets[k].id /\ tgt = Targets[k].y /\ form = <<StartSymbol>>
Next == LET i == FirstNT(form, 1)  y == tgt IN
        /\ i > 0
        /\ \E p \in 1..Len(Productions) :
             /\ Productions[p].lhs = form[i]
             /\ LET nf == SubSeq(form, 1, i-1) \o Productions[p].rhs \o SubSeq(form, i+1, Len(form)) IN
                /\ SumMin(nf) <= Len(y) /\ PrefixOK(nf, y) /\ KindsOK(nf, y)
                /\ form' = nf
        /\ UNCHANGED <<tid, tgt>>
Emit == (FirstNT(form, 1) = 0 /\ form = tgt) => PrintT(<<"MEMBER", ToJson([id |-> tid])>>)
====
