---- MODULE MC_Trees ----
\* C07 / C16 by TREE size: every surface syntax tree up to MaxSize nodes, with up to MaxParens redundantly
\* parenthesised nodes, unparsed to a sentence; the parser must give back exactly this tree.
EXTENDS GramUnparse, Json
CONSTANTS MaxSize, MaxParens, Kinds, BinOps
VARIABLES pre, pending, size, parens
Init == pre = <<>> /\ pending = 1 /\ size = 0 /\ parens = 0
Fill(label, slots, par) == /\ pending > 0 /\ size + pending + slots <= MaxSize /\ parens + (IF par THEN 1 ELSE 0) <= MaxParens
                           /\ pre' = Append(pre, [label EXCEPT !.p = par]) /\ pending' = pending - 1 + slots /\ size' = size + 1
                           /\ parens' = parens + (IF par THEN 1 ELSE 0)
L(k) == [k |-> k, p |-> FALSE, op |-> "", imp |-> FALSE, ann |-> FALSE]
Next == \E par \in BOOLEAN :
        \/ \E k \in {"var", "lit", "type", "true"} \cap Kinds : Fill(L(k), 0, par)
        \/ "app" \in Kinds /\ Fill(L("app"), 2, par)
        \/ "bin" \in Kinds /\ \E op \in BinOps : Fill([L("bin") EXCEPT !.op = op], 2, par)
        \/ "neg" \in Kinds /\ Fill(L("neg"), 1, par)
        \/ "lam" \in Kinds /\ \E imp \in BOOLEAN : (Fill([L("lam") EXCEPT !.imp = imp, !.ann = TRUE], 2, par) \/ Fill([L("lam") EXCEPT !.imp = imp], 1, par))
        \/ "pi" \in Kinds /\ \E imp \in BOOLEAN : Fill([L("pi") EXCEPT !.imp = imp, !.ann = TRUE], 2, par)
        \/ "ndpi" \in Kinds /\ Fill(L("ndpi"), 2, par)
        \/ "if" \in Kinds /\ Fill(L("if"), 3, par)
        \/ "let" \in Kinds /\ (Fill([L("let") EXCEPT !.ann = TRUE], 3, par) \/ Fill(L("let"), 2, par))
RECURSIVE Build(_)
Build(q) == LET h == Head(q) r == Tail(q) IN
  CASE h.k \in {"var", "lit", "type", "true"} -> [t |-> [k |-> h.k, p |-> h.p], r |-> r]
    [] h.k \in {"app", "ndpi"} -> LET a == Build(r) b == Build(a.r) IN [t |-> [k |-> h.k, p |-> h.p, a |-> a.t, b |-> b.t], r |-> b.r]
    [] h.k = "bin" -> LET a == Build(r) b == Build(a.r) IN [t |-> [k |-> "bin", op |-> h.op, p |-> h.p, a |-> a.t, b |-> b.t], r |-> b.r]
    [] h.k = "neg" -> LET a == Build(r) IN [t |-> [k |-> "neg", p |-> h.p, a |-> a.t], r |-> a.r]
    [] h.k \in {"lam", "pi"} -> IF h.ann THEN LET a == Build(r) b == Build(a.r) IN [t |-> [k |-> h.k, p |-> h.p, imp |-> h.imp, ann |-> TRUE, a |-> a.t, b |-> b.t], r |-> b.r]
                                ELSE LET b == Build(r) IN [t |-> [k |-> h.k, p |-> h.p, imp |-> h.imp, ann |-> FALSE, b |-> b.t], r |-> b.r]
    [] h.k = "if" -> LET c == Build(r) a == Build(c.r) b == Build(a.r) IN [t |-> [k |-> "if", p |-> h.p, c |-> c.t, a |-> a.t, b |-> b.t], r |-> b.r]
    [] h.k = "let" -> IF h.ann THEN LET a == Build(r) d == Build(a.r) b == Build(d.r) IN [t |-> [k |-> "let", p |-> h.p, ann |-> TRUE, a |-> a.t, d |-> d.t, b |-> b.t], r |-> b.r]
                      ELSE LET d == Build(r) b == Build(d.r) IN [t |-> [k |-> "let", p |-> h.p, ann |-> FALSE, d |-> d.t, b |-> b.t], r |-> b.r]
Done == pending = 0
Emit == Done => LET u == Unparse(Build(pre).t) IN PrintT(<<"SENT", ToJson([y |-> u.toks, ast |-> u.ast, d |-> <<>>])>>)
====
