---- MODULE MC_Trees ----
\* C07 / C16 by TREE size: every surface syntax tree up to MaxSize nodes, with up to MaxParens redundantly
\* parenthesised nodes, unparsed to a sentence; the parser must give back exactly this tree.
EXTENDS GramShow, Json
CONSTANTS MaxSize, MaxParens, Kinds, BinOps, MaxDrops   \* MaxDrops: nodes whose REQUIRED parentheses are left out (0 = sentences only)
VARIABLES pre, pending, size, parens, drops
Init == pre = <<>> /\ pending = 1 /\ size = 0 /\ parens = 0 /\ drops = 0
Fill(label, slots, par) == \E np \in (IF par THEN {FALSE} ELSE BOOLEAN) :
                           /\ pending > 0 /\ size + pending + slots <= MaxSize /\ parens + (IF par THEN 1 ELSE 0) <= MaxParens
                           /\ drops + (IF np THEN 1 ELSE 0) <= MaxDrops
                           /\ pre' = Append(pre, [label EXCEPT !.p = par, !.np = np]) /\ pending' = pending - 1 + slots /\ size' = size + 1
                           /\ parens' = parens + (IF par THEN 1 ELSE 0) /\ drops' = drops + (IF np THEN 1 ELSE 0)
L(k) == [k |-> k, p |-> FALSE, np |-> FALSE, op |-> "", imp |-> FALSE, ann |-> FALSE]
Next == \E par \in BOOLEAN :
        \/ \E k \in {"var", "lit", "type", "true"} \cap Kinds : Fill(L(k), 0, par)
        \/ "app" \in Kinds /\ Fill(L("app"), 2, par)
        \/ "bin" \in Kinds /\ \E op \in BinOps : Fill([L("bin") EXCEPT !.op = op], 2, par)
        \/ "neg" \in Kinds /\ Fill(L("neg"), 1, par)
        \/ "lam" \in Kinds /\ \E imp \in BOOLEAN : (Fill([L("lam") EXCEPT !.imp = imp, !.ann = TRUE], 2, par) \/ Fill([L("lam") EXCEPT !.imp = imp], 1, par))
        \/ "pi" \in Kinds /\ \E imp \in BOOLEAN : Fill([L("pi") EXCEPT !.imp = imp, !.ann = TRUE], 2, par)
        \/ "ndpi" \in Kinds /\ Fill(L("ndpi"), 2, par)
        \/ "if" \in Kinds /\ Fill(L("if"), 3, par)
        \/ "let" \in Kinds /\ (Fill([L("let") EXCEPT !.ann = TRUE], 3, par) \/ Fill(L("let"), 2, par))
RECURSIVE Build(_)
Build(q) == LET h == Head(q) r == Tail(q) IN
  CASE h.k \in {"var", "lit", "type", "true"} -> [t |-> [k |-> h.k, p |-> h.p, np |-> h.np], r |-> r]
    [] h.k \in {"app", "ndpi"} -> LET a == Build(r) b == Build(a.r) IN [t |-> [k |-> h.k, p |-> h.p, np |-> h.np, a |-> a.t, b |-> b.t], r |-> b.r]
    [] h.k = "bin" -> LET a == Build(r) b == Build(a.r) IN [t |-> [k |-> "bin", op |-> h.op, p |-> h.p, np |-> h.np, a |-> a.t, b |-> b.t], r |-> b.r]
    [] h.k = "neg" -> LET a == Build(r) IN [t |-> [k |-> "neg", p |-> h.p, np |-> h.np, a |-> a.t], r |-> a.r]
    [] h.k \in {"lam", "pi"} -> IF h.ann THEN LET a == Build(r) b == Build(a.r) IN [t |-> [k |-> h.k, p |-> h.p, np |-> h.np, imp |-> h.imp, ann |-> TRUE, a |-> a.t, b |-> b.t], r |-> b.r]
                                ELSE LET b == Build(r) IN [t |-> [k |-> h.k, p |-> h.p, np |-> h.np, imp |-> h.imp, ann |-> FALSE, b |-> b.t], r |-> b.r]
    [] h.k = "if" -> LET c == Build(r) a == Build(c.r) b == Build(a.r) IN [t |-> [k |-> "if", p |-> h.p, np |-> h.np, c |-> c.t, a |-> a.t, b |-> b.t], r |-> b.r]
    [] h.k = "let" -> IF h.ann THEN LET a == Build(r) d == Build(a.r) b == Build(d.r) IN [t |-> [k |-> "let", p |-> h.p, np |-> h.np, ann |-> TRUE, a |-> a.t, d |-> d.t, b |-> b.t], r |-> b.r]
                      ELSE LET d == Build(r) b == Build(d.r) IN [t |-> [k |-> "let", p |-> h.p, np |-> h.np, ann |-> FALSE, d |-> d.t, b |-> b.t], r |-> b.r]
Done == pending = 0
RECURSIVE ClearNp(_)
ClearNp(t) == LET c == [t EXCEPT !.np = FALSE] IN
  CASE t.k \in {"app", "ndpi", "bin"} -> [c EXCEPT !.a = ClearNp(t.a), !.b = ClearNp(t.b)]
    [] t.k = "neg" -> [c EXCEPT !.a = ClearNp(t.a)]
    [] t.k \in {"lam", "pi"} -> IF t.ann THEN [c EXCEPT !.a = ClearNp(t.a), !.b = ClearNp(t.b)] ELSE [c EXCEPT !.b = ClearNp(t.b)]
    [] t.k = "if" -> [c EXCEPT !.c = ClearNp(t.c), !.a = ClearNp(t.a), !.b = ClearNp(t.b)]
    [] t.k = "let" -> IF t.ann THEN [c EXCEPT !.a = ClearNp(t.a), !.d = ClearNp(t.d), !.b = ClearNp(t.b)] ELSE [c EXCEPT !.d = ClearNp(t.d), !.b = ClearNp(t.b)]
    [] OTHER -> c
\* C16 (design level): wherever the grammar requires parentheses the printer writes them
InvShowValid == Done => ShowValid(Build(pre).t)
\* with a dropped pair of required parentheses the string is emitted WITHOUT a tree (tag NOPAR): whether it is a sentence at
\* all is decided separately by the derivation machine (MC_Member)
Emit == Done => LET t == Build(pre).t  u == Unparse(t) IN
   IF drops = 0 THEN PrintT(<<"SENT", ToJson([y |-> u.toks, ast |-> u.ast, d |-> <<>>])>>)
   ELSE (u.toks # Unparse(ClearNp(t)).toks => PrintT(<<"NOPAR", ToJson([y |-> u.toks])>>))
====
