---- MODULE MC_ConvOps ----
\* C06 below a binder, every operator: stuck operator terms  (x : int) => A op B  with operands that are the bound variable,
\* literals, or still reducible, against the same term with another operator, another operand, or the normal form.  The verdict
\* is the specification's (equality of normal forms); the real unify is called on each pair in both orders.
EXTENDS GramTyping, Json
VARIABLE i
OpsAll == {"sum", "diff", "prod", "quot", "lt", "le", "eq", "gt", "ge"}
L(n) == Lit(OfSmall(n))
Operands == {Var(0), L(1), L(2), Bin("sum", L(0), L(1)), Bin("sum", Var(0), L(0))}
H(op, a, b) == Binder("lam", "?", FALSE, TInt, Bin(op, a, b))
NFuel == 400
NfEq(a, b) == LET na == Nf(a, <<>>, NFuel) nb == Nf(b, <<>>, NFuel) IN IF na.ok /\ nb.ok THEN (IF Same(na.t, nb.t) THEN "yes" ELSE "no") ELSE "fuel"
Partners(op, a, b) == { H(o, a, b) : o \in OpsAll } \cup { H(op, x, b) : x \in Operands } \cup { H(op, a, x) : x \in Operands }
                      \cup (LET n == Nf(H(op, a, b), <<>>, NFuel) IN IF n.ok THEN {n.t} ELSE {})
P(kind, a, b) == [kind |-> kind, a |-> a, b |-> b]
Pairs == UNION { { P(IF NfEq(H(op, a, b), u) = "yes" THEN "conv-yes" ELSE "conv-no", H(op, a, b), u) : u \in { x \in Partners(op, a, b) : NfEq(H(op, a, b), x) # "fuel" } }
                 : <<op, a, b>> \in OpsAll \X Operands \X Operands }
\* conversion has to look BELOW the head of a neutral term: the argument of an unknown function, the condition of a stuck
\* conditional (itself an application of an unknown function, or a comparison with the bound variable), a stuck negation; and a
\* stuck negation is not its operand
Arrow(a, b) == Binder("pi", "?", FALSE, a, b)
Es == {L(3), L(4), Bin("sum", L(1), L(2)), Bin("sum", L(2), L(1)), Bin("prod", L(2), L(2)), Bin("diff", L(4), L(1))}
N1(e) == Binder("lam", "?", FALSE, Arrow(TInt, TInt), App(Var(0), e))
N2(e) == Binder("lam", "?", FALSE, Arrow(TInt, TBool), IfT(App(Var(0), e), L(1), L(2)))
N3(e) == Binder("lam", "?", FALSE, TInt, IfT(Bin("lt", Var(0), e), L(1), L(2)))
N4(e) == Binder("lam", "?", FALSE, TInt, NegT(Bin("sum", Var(0), e)))
N5(e) == Binder("lam", "?", FALSE, Arrow(TInt, TInt), Bin("sum", App(Var(0), e), L(1)))
N6(e) == Binder("lam", "?", FALSE, Arrow(TInt, Arrow(TInt, TInt)), App(App(Var(0), e), L(7)))
Neutral(k, e) == CASE k = 1 -> N1(e) [] k = 2 -> N2(e) [] k = 3 -> N3(e) [] k = 4 -> N4(e) [] k = 5 -> N5(e) [] k = 6 -> N6(e)
StuckNeg == { P("conv-no", Binder("lam", "?", FALSE, TInt, NegT(Var(0))), Binder("lam", "?", FALSE, TInt, Var(0))),
              P("conv-no", Binder("lam", "?", FALSE, TInt, NegT(NegT(Var(0)))), Binder("lam", "?", FALSE, TInt, NegT(Var(0)))),
              P("conv-no", Binder("lam", "?", FALSE, TInt, Bin("sum", NegT(Var(0)), L(1))), Binder("lam", "?", FALSE, TInt, Bin("sum", Var(0), L(1)))),
              P("conv-yes", Binder("lam", "?", FALSE, TInt, NegT(Var(0))), Binder("lam", "?", FALSE, TInt, NegT(Var(0)))) }
NeutralPairs == { P(IF NfEq(Neutral(k, e1), Neutral(k, e2)) = "yes" THEN "conv-yes" ELSE "conv-no", Neutral(k, e1), Neutral(k, e2)) : <<k, e1, e2>> \in (1..6) \X Es \X Es }
                \cup StuckNeg
Init == i = 0
Next == i = 0 /\ i' = 1
Emit == (i = 1) => \A p \in Pairs \cup NeutralPairs : PrintT(<<"PAIR", ToJson(p)>>)
====
