---- MODULE MC_ConvOps ----
\* C06 below a binder, every operator: stuck operator terms  (x : int) => A op B  with operands that are the bound variable,
\* literals, or still reducible, against the same term with another operator, another operand, or the normal form.  The verdict
\* is the specification's (equality of normal forms); the real unify is called on each pair in both orders.
EXTENDS GramTyping, Json
VARIABLE i
OpsAll == {"sum", "diff", "prod", "quot", "lt", "le", "eq", "gt", "ge"}
L(n) == Lit(OfSmall(n))
Operands == {Var(0), L(1), L(2), Bin("sum", L(0), L(1)), Bin("sum", Var(0), L(0))}
H(op, a, b) == Binder("lam", "?", FALSE, TInt, Bin(op, a, b))
NFuel == 400
NfEq(a, b) == LET na == Nf(a, <<>>, NFuel) nb == Nf(b, <<>>, NFuel) IN IF na.ok /\ nb.ok THEN (IF Same(na.t, nb.t) THEN "yes" ELSE "no") ELSE "fuel"
Partners(op, a, b) == { H(o, a, b) : o \in OpsAll } \cup { H(op, x, b) : x \in Operands } \cup { H(op, a, x) : x \in Operands }
                      \cup (LET n == Nf(H(op, a, b), <<>>, NFuel) IN IF n.ok THEN {n.t} ELSE {})
P(kind, a, b) == [kind |-> kind, a |-> a, b |-> b]
Pairs == UNION { { P(IF NfEq(H(op, a, b), u) = "yes" THEN "conv-yes" ELSE "conv-no", H(op, a, b), u) : u \in { x \in Partners(op, a, b) : NfEq(H(op, a, b), x) # "fuel" } }
                 : <<op, a, b>> \in OpsAll \X Operands \X Operands }
Init == i = 0
Next == i = 0 /\ i' = 1
Emit == (i = 1) => \A p \in Pairs : PrintT(<<"PAIR", ToJson(p)>>)
====
