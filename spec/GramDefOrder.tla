---- MODULE GramDefOrder ----
\* The definition-order check (src/parser.rs check_definitions / check_definition) as a traversal machine over one group,
\* with its one scheduling choice made explicit: the order in which the free variables of a definition are visited.
\*   Mode = "hash"    any remaining variable may be visited next (iteration over a HashSet: the code before commit df612af)
\*   Mode = "sorted"  the smallest remaining variable is visited next (the code now)
\* C13 on this machine: the list of diagnostics at the end must not depend on the choices.  TLC explores every choice; the
\* invariant Deterministic compares the final list with the one the sorted traversal produces.  With Mode = "hash" TLC
\* returns the statement's own counterexample (`x = y + z + w; y = 1 + 1; ...`): the model-level reason for the repair.
\* The machine also refines the declarative rule GroupErrors of GramTyping (as SETS of (start, offender) pairs).
EXTENDS Naturals, Sequences, FiniteSets, TLC
CONSTANTS N, Mode
\* a group: isval[j], refs[j] (positions 1..N referenced by definition j)
VARIABLES isval, refs, start, stack, visited, errs
vars == <<isval, refs, start, stack, visited, errs>>
Pos == 1..N
Min(S) == CHOOSE x \in S : \A y \in S : x <= y
\* the code iterates over variable INDICES (n - position), smallest index first = largest position first
Pick(S) == IF Mode = "hash" THEN S ELSE {CHOOSE x \in S : \A y \in S : x >= y}
NextStart(s) == IF \E j \in Pos : j > s /\ ~isval[j] THEN Min({j \in Pos : j > s /\ ~isval[j]}) ELSE N + 1
Init == /\ isval \in [Pos -> BOOLEAN] /\ refs \in [Pos -> SUBSET Pos]
        /\ start = (IF \E j \in Pos : ~isval[j] THEN Min({j \in Pos : ~isval[j]}) ELSE N + 1)
        /\ stack = (IF start <= N THEN <<refs[start]>> ELSE <<>>) /\ visited = {} /\ errs = <<>>
Visit == /\ start <= N /\ stack # <<>> /\ stack[Len(stack)] # {}
         /\ \E v \in Pick(stack[Len(stack)]) :
              LET rest == [stack EXCEPT ![Len(stack)] = @ \ {v}] IN
              IF v \in visited THEN stack' = rest /\ UNCHANGED <<visited, errs>>
              ELSE /\ visited' = visited \cup {v}
                   /\ IF isval[v] THEN stack' = Append(rest, refs[v]) /\ UNCHANGED errs
                      ELSE /\ stack' = rest
                           /\ errs' = IF v >= start THEN Append(errs, <<start, v>>) ELSE errs
         /\ UNCHANGED <<isval, refs, start>>
Pop == /\ start <= N /\ stack # <<>> /\ stack[Len(stack)] = {}
       /\ stack' = SubSeq(stack, 1, Len(stack) - 1) /\ UNCHANGED <<isval, refs, start, visited, errs>>
NextDef == /\ start <= N /\ stack = <<>>
           /\ start' = NextStart(start) /\ visited' = {}
           /\ stack' = (IF NextStart(start) <= N THEN <<refs[NextStart(start)]>> ELSE <<>>)
           /\ UNCHANGED <<isval, refs, errs>>
Next == Visit \/ Pop \/ NextDef
Finished == start > N
\* ---- the sorted traversal as a function (what a deterministic implementation reports)
RECURSIVE Dfs(_,_,_,_,_,_)
\* returns [visited, errs]
Dfs(iv, rf, s, todo, vis, es) ==
  IF todo = {} THEN [visited |-> vis, errs |-> es] ELSE
  LET v == CHOOSE x \in todo : \A y \in todo : x >= y  rest == todo \ {v} IN
  IF v \in vis THEN Dfs(iv, rf, s, rest, vis, es)
  ELSE IF iv[v] THEN LET r == Dfs(iv, rf, s, rf[v], vis \cup {v}, es) IN Dfs(iv, rf, s, rest, r.visited, r.errs)
       ELSE Dfs(iv, rf, s, rest, vis \cup {v}, IF v >= s THEN Append(es, <<s, v>>) ELSE es)
RECURSIVE AllErrs(_,_,_)
AllErrs(iv, rf, s) == IF s > N THEN <<>> ELSE (IF iv[s] THEN <<>> ELSE Dfs(iv, rf, s, rf[s], {}, <<>>).errs) \o AllErrs(iv, rf, s + 1)
Deterministic == Finished => errs = AllErrs(isval, refs, 1)
\* ---- refinement of the declarative rule: the SET of reported pairs is the rule's set
RECURSIVE ReachVia(_,_,_,_)
ReachVia(iv, rf, seen, frontier) ==
  IF frontier = {} THEN seen ELSE
  LET new == (UNION { rf[j] : j \in frontier }) \ seen IN ReachVia(iv, rf, seen \cup new, { j \in new : iv[j] })
RuleErrors == { <<s, j>> \in Pos \X Pos : ~isval[s] /\ j \in ReachVia(isval, refs, {}, {s}) /\ ~isval[j] /\ j >= s }
RefinesRule == Finished => { errs[k] : k \in 1..Len(errs) } = RuleErrors
====
