---- MODULE GramPackrat ----
\* C17: the memo table of the packrat parser (src/parser.rs Cache, cache_check!, cache_return!) as a machine.
\* A parsing function is entered with (nonterminal, position); a Hit answers from the table, a Compute runs the body (which
\* may enter further functions at the same or a later position) and its Return stores the result.
\* Design bound checked by TLC: every key is computed at most once, so computes <= |NT| * (n + 1), and the number of entries
\* is at most computes * MaxCalls + 1 -- linear in the input length.  (Running time itself is not a state property: the real
\* parser's work is made observable by the guarded counters `memo_enter` / `memo_hit`.)
EXTENDS Naturals, Sequences, FiniteSets, TLC
CONSTANTS NT, N, MaxCalls      \* nonterminals, input length, calls a body may make
VARIABLES memo, stack, enters, computes, hits
vars == <<memo, stack, enters, computes, hits>>
Keys == NT \X (0..N)
Init == memo = {} /\ stack = <<>> /\ enters = 0 /\ computes = 0 /\ hits = 0
\* the (abstract) body of a parsing function may call any function at any position >= its own, except itself at its own
\* position (no left recursion), at most MaxCalls times
Enter(k) ==
  /\ (stack = <<>> => enters = 0) /\ (stack # <<>> => LET top == stack[Len(stack)] IN top.calls < MaxCalls /\ k[2] >= top.key[2] /\ \A i \in 1..Len(stack) : stack[i].key # k)
  /\ enters' = enters + 1
  /\ IF k \in memo
     THEN hits' = hits + 1 /\ UNCHANGED <<memo, computes>> /\ stack' = IF stack = <<>> THEN stack ELSE [stack EXCEPT ![Len(stack)].calls = @ + 1]
     ELSE computes' = computes + 1 /\ UNCHANGED <<memo, hits>> /\ stack' = (IF stack = <<>> THEN stack ELSE [stack EXCEPT ![Len(stack)].calls = @ + 1]) \o <<[key |-> k, calls |-> 0]>>
Return == stack # <<>> /\ memo' = memo \cup {stack[Len(stack)].key} /\ stack' = SubSeq(stack, 1, Len(stack) - 1) /\ UNCHANGED <<enters, computes, hits>>
Next == (\E k \in Keys : Enter(k)) \/ Return
ComputedOnce == computes <= Cardinality(NT) * (N + 1)
WorkLinear == enters <= computes * MaxCalls + 1
HitsAreMemoised == hits + computes = enters
====
