---- MODULE GramCli ----
\* The command line of gram (src/main.rs) as a function from an abstract invocation to the observation it must produce.
\*   form : how gram was called            none | path | check | run | check-nopath | run-nopath | extra | badflag
\*                                         | version | help | completion | completion-bad
\*   file : what the path names            missing | dir | badutf8 | ok          (forms with a path)
\*   front: what the front end says        lex | parse | type | ok                (readable files)
\*   run  : how evaluation ends            value | stuck                           (accepted programs; stuck = division by zero)
\* Observation: exit status, whether stdout / stderr are empty, whether stderr carries an [Error] diagnostic.
EXTENDS Naturals, FiniteSets, TLC
Forms == {"none", "path", "check", "run", "check-nopath", "run-nopath", "extra", "badflag", "version", "help", "completion", "completion-bad"}
Files == {"missing", "dir", "badutf8", "ok"}
Fronts == {"lex", "parse", "type", "ok"}
Runs == {"value", "stuck"}
Invocations == [form : Forms, file : Files, front : Fronts, run : Runs]
O(exit, out, err, tag) == [exit |-> exit, out |-> out, err |-> err, tag |-> tag]     \* out / err: TRUE = something was written
Usage == O(2, FALSE, TRUE, FALSE)          \* clap: wrong usage -> message on stderr, status 2
Info == O(0, TRUE, FALSE, FALSE)           \* --version, --help, shell completion script
Failure == O(1, FALSE, TRUE, TRUE)         \* [Error] diagnostic(s) on stderr, nothing on stdout
Stuck == O(1, FALSE, TRUE, FALSE)          \* "Evaluation of ... is stuck!" (the message of the evaluator)
Success == O(0, TRUE, FALSE, FALSE)
\* the pipeline on a path (check_only as in main.rs `run`)
Pipeline(i, checkOnly) ==
  IF i.file # "ok" THEN Failure                           \* "Error when reading file ..."
  ELSE IF i.front # "ok" THEN Failure
  ELSE IF checkOnly THEN Success
  ELSE IF i.run = "value" THEN Success ELSE Stuck
Obs(i) ==
  CASE i.form \in {"none", "check-nopath", "run-nopath", "extra", "badflag", "completion-bad"} -> Usage
    [] i.form \in {"version", "help", "completion"} -> Info
    [] i.form = "check" -> Pipeline(i, TRUE)
    [] i.form \in {"run", "path"} -> Pipeline(i, FALSE)
\* ---- what a user relies on (checked by TLC over all invocations)
With(i, f) == [i EXCEPT !.form = f]
PathIsRun == \A i \in Invocations : Obs(With(i, "path")) = Obs(With(i, "run"))
CheckAndRunRejectAlike == \A i \in Invocations : (i.file # "ok" \/ i.front # "ok") => Obs(With(i, "check")) = Obs(With(i, "run"))
AcceptedThenRuns == \A i \in Invocations : Obs(With(i, "check")).exit = 0 => (Obs(With(i, "run")) \in {Success, Stuck})
StreamsExclusive == \A i \in Invocations : LET o == Obs(i) IN (o.exit = 0 => (o.out /\ ~o.err)) /\ (o.exit # 0 => (~o.out /\ o.err))
ExitCodes == \A i \in Invocations : Obs(i).exit \in {0, 1, 2}
ErrorTagOnlyOnFailure == \A i \in Invocations : Obs(i).tag => Obs(i).exit = 1
Laws == PathIsRun /\ CheckAndRunRejectAlike /\ AcceptedThenRuns /\ StreamsExclusive /\ ExitCodes /\ ErrorTagOnlyOnFailure
====
