---- MODULE MC_Cli ----
\* TLC evaluates the laws of the command-line specification over all invocations (a one-state model).
EXTENDS GramCli
VARIABLE dummy
Init == dummy = 0
Next == UNCHANGED dummy
====
