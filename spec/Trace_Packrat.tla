---- MODULE Trace_Packrat ----
\* C17 on the real parser: for every input family the work (entries of memoised parsing functions, counted by the guarded
\* hook) at sizes n, 2n, 4n.  Doubling the input may multiply the work by at most 10 (a cubic allowance for "low-degree
\* polynomial"; the design bound of GramPackrat is linear and today's parser is linear), and CPU time by at most 16 once the
\* smaller run is long enough to be measurable.  A case that hit the per-case time limit is itself the witness.
EXTENDS Naturals, Integers, Sequences, TLC, Json, IOUtils
Rec == ndJsonDeserialize(IOEnv.TRACE)
VARIABLES l, prev
Bad(what) == Print(<<"TRACE-REJECT", l, what>>, TRUE)
WorkEv(e) ==
  /\ IF e.timed_out THEN Bad(<<"C17", "time limit hit", e.family, e.n>>) ELSE TRUE
  /\ IF e.hits + e.computes # e.work THEN Bad(<<"C17", "hook counters inconsistent", e.family>>) ELSE TRUE
  /\ IF prev.family = e.family /\ e.n = 2 * prev.n /\ ~e.timed_out
     THEN /\ (IF e.work > 10 * prev.work + 2000 THEN Bad(<<"C17", "parsing work grows faster than the allowance when the input doubles", e.family, prev.n, prev.work, e.n, e.work>>) ELSE TRUE)
          /\ (IF prev.cpu_us >= 20000 /\ e.cpu_us > 16 * prev.cpu_us THEN Bad(<<"C17", "CPU time grows faster than the allowance when the input doubles", e.family, prev.n, prev.cpu_us, e.n, e.cpu_us>>) ELSE TRUE)
          /\ (IF prev.lex_us >= 20000 /\ e.lex_us > 16 * prev.lex_us THEN Bad(<<"C17", "tokenizing time grows faster than the allowance", e.family, prev.n, e.n>>) ELSE TRUE)
     ELSE TRUE
  /\ prev' = e
TInit == l = 1 /\ prev = [family |-> "", n |-> 0, work |-> 0, cpu_us |-> 0, lex_us |-> 0]
TNext == l <= Len(Rec) /\ l' = l + 1 /\ (IF Rec[l].ev = "work" THEN WorkEv(Rec[l]) ELSE (Bad(<<"tool", "unknown event">>) /\ prev' = prev))
TSpec == TInit /\ [][TNext]_<<l, prev>>
TraceAccepted == IF TLCGet("stats").diameter - 1 = Len(Rec) THEN TRUE ELSE Print(<<"TRACE-STOPPED-AT", TLCGet("stats").diameter>>, FALSE)
====
