---- MODULE GramRewrite ----
\* C19: meaning-preserving rewrites of a program, as operators on De Bruijn terms with conservative applicability
\* guards.  (Renaming of bound variables and redundant parentheses are text-level: the harness renders every program
\* with several name pools and both fully and minimally parenthesised.)
EXTENDS GramUnify
\* an unused definition around the program
AddUnused(t) == LetT(<<[n |-> "?", ann |-> TInt, def |-> Lit(OfSmall(0))]>>, Up(t, 0, 1))
\* an unused definition added in front of an existing group g (t is a let): the members keep their indices, every
\* reference to the outside moves up by one
AddUnusedIn(g) == LET n == Len(g.defs) IN
   LetT(<<[n |-> "?", ann |-> TInt, def |-> Lit(OfSmall(0))]>> \o Mat([j \in 1..n |-> [g.defs[j] EXCEPT !.ann = Up(g.defs[j].ann, n, 1), !.def = Up(g.defs[j].def, n, 1)]], n),
        Up(g.b, n, 1))
\* an unused definition added at the END of an existing group: the new member has index 0, so every member and every reference
\* to the outside moves up by one
AddUnusedLast(g) == LET n == Len(g.defs) IN
   LetT(Mat([j \in 1..n |-> [g.defs[j] EXCEPT !.ann = Up(g.defs[j].ann, 0, 1), !.def = Up(g.defs[j].def, 0, 1)]], n) \o <<[n |-> "?", ann |-> TInt, def |-> Lit(OfSmall(0))]>>,
        Up(g.b, 0, 1))
\* a ground annotation of member j of a group is given a name: a definition  t : type = <annotation>  is added in front and the
\* member is annotated with t (the members keep their indices, references to the outside move up by one)
AliasAnnIn(g, j) == LET n == Len(g.defs) IN
   LetT(<<[n |-> "?", ann |-> TType, def |-> g.defs[j].ann]>> \o
        Mat([q \in 1..n |-> [g.defs[q] EXCEPT !.ann = IF q = j THEN Var(n) ELSE Up(g.defs[q].ann, n, 1), !.def = Up(g.defs[q].def, n, 1)]], n),
        Up(g.b, n, 1))
\* if true then e else e
IfTrueAt(t, s) == Replace(t, s.pos, IfT(TTrue, s.sub, s.sub))
\* positions whose type is known from the parent alone
RECURSIVE TypedSites(_,_,_)
\* set of [pos, d, sub, ty] with ty \in {"int","bool"}
TypedSites(t, pos, d) ==
  LET here == CASE t.k = "bin" -> {[pos |-> Append(pos, "a"), d |-> d, sub |-> t.a, ty |-> "int"], [pos |-> Append(pos, "b"), d |-> d, sub |-> t.b, ty |-> "int"]}
                [] t.k = "neg" -> {[pos |-> Append(pos, "a"), d |-> d, sub |-> t.a, ty |-> "int"]}
                [] t.k = "if" -> {[pos |-> Append(pos, "c"), d |-> d, sub |-> t.c, ty |-> "bool"]}
                [] OTHER -> {}
  IN here \cup
  CASE t.k \in {"lam","pi"} -> TypedSites(t.a, Append(pos, "a"), d) \cup TypedSites(t.b, Append(pos, "b"), d + 1)
    [] t.k \in {"app","bin"} -> TypedSites(t.a, Append(pos, "a"), d) \cup TypedSites(t.b, Append(pos, "b"), d)
    [] t.k = "neg" -> TypedSites(t.a, Append(pos, "a"), d)
    [] t.k = "if" -> TypedSites(t.c, Append(pos, "c"), d) \cup TypedSites(t.a, Append(pos, "a"), d) \cup TypedSites(t.b, Append(pos, "b"), d)
    [] t.k = "let" -> TypedSites(t.b, Append(pos, "b"), d + Len(t.defs))
                      \cup UNION { TypedSites(t.defs[j].ann, pos \o <<"ann", ToString(j)>>, d + Len(t.defs)) \cup TypedSites(t.defs[j].def, pos \o <<"def", ToString(j)>>, d + Len(t.defs)) : j \in 1..Len(t.defs) }
    [] OTHER -> {}
\* wrap in an immediately applied annotated identity function
IdWrapAt(t, s) == Replace(t, s.pos, App(Binder("lam", "?", FALSE, IF s.ty = "int" THEN TInt ELSE TBool, Var(0)), s.sub))
\* name a subexpression with a definition around the whole program: the subexpression must not mention binders of the
\* program, and (conservatively) contain neither division nor application (its evaluation is total and cannot diverge)
RECURSIVE Total(_)
Total(t) == CASE t.k \in {"lit","true","false","var"} -> TRUE
              [] t.k = "bin" -> t.op # "quot" /\ Total(t.a) /\ Total(t.b)
              [] t.k = "neg" -> Total(t.a)
              [] t.k = "if" -> Total(t.c) /\ Total(t.a) /\ Total(t.b)
              [] OTHER -> FALSE
CanName(s) == s.pos # <<>> /\ s.sub.k \in {"bin","neg","if"} /\ Total(s.sub) /\ FV(s.sub, 0) = {}
NameAt(t, s) == LetT(<<[n |-> "?", ann |-> Hole(1, 1), def |-> Up(s.sub, 0, 1)]>>, Replace(Up(t, 0, 1), s.pos, Var(s.d)))
\* exchange two adjacent definitions of a group, at least one of which is a function: positions j and j+1, indices n-j and n-j-1
RECURSIVE SwapIdx(_,_,_,_)
SwapIdx(t, c, x, y) ==
  CASE t.k = "var" -> IF t.i = c + x THEN [t EXCEPT !.i = c + y] ELSE IF t.i = c + y THEN [t EXCEPT !.i = c + x] ELSE t
    [] t.k \in {"lam","pi"} -> [t EXCEPT !.a = SwapIdx(t.a, c, x, y), !.b = SwapIdx(t.b, c + 1, x, y)]
    [] t.k \in {"app","bin"} -> [t EXCEPT !.a = SwapIdx(t.a, c, x, y), !.b = SwapIdx(t.b, c, x, y)]
    [] t.k = "neg" -> [t EXCEPT !.a = SwapIdx(t.a, c, x, y)]
    [] t.k = "if" -> [t EXCEPT !.c = SwapIdx(t.c, c, x, y), !.a = SwapIdx(t.a, c, x, y), !.b = SwapIdx(t.b, c, x, y)]
    [] t.k = "let" -> LET n == Len(t.defs) IN
         [t EXCEPT !.defs = Mat([j \in 1..n |-> [t.defs[j] EXCEPT !.ann = SwapIdx(t.defs[j].ann, c + n, x, y), !.def = SwapIdx(t.defs[j].def, c + n, x, y)]], n),
                   !.b = SwapIdx(t.b, c + n, x, y)]
    [] OTHER -> t
SwapDefs(g, j) ==   \* g is a let; definitions j and j+1 are exchanged
  LET n == Len(g.defs)  x == n - j  y == n - j - 1
      ren(u) == SwapIdx(u, 0, x, y)
      ds == Mat([q \in 1..n |-> LET src == IF q = j THEN g.defs[j+1] ELSE IF q = j + 1 THEN g.defs[j] ELSE g.defs[q] IN [src EXCEPT !.ann = ren(src.ann), !.def = ren(src.def)]], n)
  IN [g EXCEPT !.defs = ds, !.b = ren(g.b)]
SwapSites(t) == { s \in Subterms(t, <<>>, 0) : s.sub.k = "let" /\ Len(s.sub.defs) >= 2 }
\* ... at least one of the two is a function: a function is available to the whole group wherever it stands, only the
\* relative order of the computed definitions matters
Swappable(g, j) == g.defs[j].def.k = "lam" \/ g.defs[j+1].def.k = "lam"
IsDefPos(pos) == Len(pos) >= 2 /\ pos[Len(pos) - 1] = "def"
\* all single rewrites of t: set of [rule, t]
Rewrites(t) ==
  {[rule |-> "add-unused-definition", t |-> AddUnused(t)]}
  \cup { [rule |-> "add-unused-definition-in-group", t |-> Replace(t, s.pos, AddUnusedIn(s.sub))] : s \in { x \in Subterms(t, <<>>, 0) : x.sub.k = "let" } }
  \cup { [rule |-> "add-unused-definition-at-the-end-of-group", t |-> Replace(t, s.pos, AddUnusedLast(s.sub))] : s \in { x \in Subterms(t, <<>>, 0) : x.sub.k = "let" } }
  \cup UNION { { [rule |-> "name-annotation-in-group", t |-> Replace(t, s.pos, AliasAnnIn(s.sub, j))] : j \in { q \in 1..Len(s.sub.defs) : s.sub.defs[q].ann.k \in {"int", "bool"} } }
              : s \in { x \in Subterms(t, <<>>, 0) : x.sub.k = "let" } }
  \* not at a definition of a group: there it matters whether the definition is a syntactic value (a recursive function
  \* wrapped in a conditional is no longer available to its own body in time)
  \cup { [rule |-> "if-true", t |-> IfTrueAt(t, s)] : s \in { x \in Subterms(t, <<>>, 0) : ~IsDefPos(x.pos) } }
  \cup { [rule |-> "identity-function", t |-> IdWrapAt(t, s)] : s \in TypedSites(t, <<>>, 0) }
  \cup { [rule |-> "name-subexpression", t |-> NameAt(t, s)] : s \in { x \in Subterms(t, <<>>, 0) : CanName(x) } }
  \cup UNION { { [rule |-> "reorder-functions", t |-> Replace(t, s.pos, SwapDefs(s.sub, j))] : j \in { q \in 1..(Len(s.sub.defs) - 1) : Swappable(s.sub, q) } } : s \in SwapSites(t) }
====
