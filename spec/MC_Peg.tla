---- MODULE MC_Peg ----
\* C07 / C14 at the design level: the parser as a PEG with memoisation and error recovery (GramPeg) accepts exactly the
\* language of the published grammar (GrammarY, generated from /repo/grammar.y) -- decided here by an independent,
\* enumeration (the leftmost-derivation machine of GramGrammar, whose complete output is read back) -- on EVERY token string
\* up to the bound over the alphabet, and the table it builds is sane (a function that produces a term consumes at least one token, a failed
\* function carries exactly one error and is never confident, nothing points past the end of the input).  Every string is also
\* emitted with the syntax errors the specification prescribes for it (position, expectation, in order), to be replayed
\* through the real parse().
EXTENDS GramPeg, Json, IOUtils
CONSTANTS N, Alphabet
VARIABLE toks
Init == toks = <<>>
Next == Len(toks) < N /\ \E t \in Alphabet : toks' = Append(toks, t)
\* the sentences of grammar.y up to the bound, as enumerated by the leftmost-derivation machine of GramGrammar (MC_Grammar)
SentRecs == ndJsonDeserialize(IOEnv.SENTS)
Sents == { SentRecs[i].y : i \in 1..Len(SentRecs) }
Sane(M, n) == \A k \in DOMAIN M :
   /\ M[k].next <= n /\ M[k].next >= M[k].start
   /\ (M[k].ok => M[k].next > M[k].start)          \* a function that produces a term consumes input: no function can loop
   /\ (~M[k].ok => M[k].ne = 1 /\ ~M[k].conf)      \* a failure carries exactly one error and is never confident
\* (the table is bound through a singleton set so that TLC evaluates it once per state)
PegIsCfgAndSane == \E M \in {Table(toks)} : \E es \in {SyntaxErrors(M, toks)} :
   /\ (IF Sane(M, Len(toks)) THEN TRUE ELSE Print(<<"PEG-TABLE-NOT-SANE", toks>>, FALSE))
   /\ (IF (es = <<>>) <=> (toks \in Sents) THEN TRUE ELSE Print(<<"PEG-IS-NOT-CFG", toks, es>>, FALSE))
   /\ PrintT(<<"PEG", ToJson([y |-> toks, errs |-> es])>>)
====
