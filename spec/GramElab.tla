---- MODULE GramElab ----
\* The ELABORATOR of src/type_checker.rs (type_check_rec) as a function that threads the hole store, on top of the unification
\* algorithm of GramUnifyAlg.  One clause per match arm of the code, in the code's order of effects:
\*   * a variable's type is its context entry raised to the variable's position;
\*   * a function: the domain must be a type; the body is elaborated under the extended context; the result is a pi;
\*   * an application: TWO fresh holes d, c are allocated, `pi d c` is unified with the applicand's type (pi first), the
\*     argument is elaborated and d unified with its type; the result type is c OPENED with the argument (an unsolved c is
\*     copied by OpenS when CopyHoles -- the code's behaviour -- and kept in the intended design);
\*   * a group: all members enter both contexts first (SOURCE annotations and SOURCE definitions, offsets n - i); each annotation
\*     must be a type, each definition's type is unified with its SOURCE annotation; the type of the whole is the body's type
\*     opened once per member with a copy of the (elaborated) group whose body is that member;
\*   * operators and conditionals unify operand types with int / bool in the order the code does.
\* Errors are counted, never abort (the code keeps going after a failed unification, with whatever the unifier already solved).
\* Acceptance = no error and no unsolved hole left in the elaborated term.
EXTENDS GramUnifyAlg
E6(el, ty, st, n, f, e) == [el |-> el, ty |-> ty, st |-> st, n |-> n, f |-> f, e |-> e]
\* unify and count a failure; "fuel" is propagated as f = 0
Chk(x, y, ctx, r) == LET u == UnifyA(x, y, ctx, r.st, r.n, r.f) IN
   [r EXCEPT !.st = u.st, !.n = u.n, !.f = IF u.r = "fuel" THEN 0 ELSE u.f, !.e = IF u.r = "no" THEN r.e + 1 ELSE r.e]
RECURSIVE ElabRec(_,_,_,_,_,_)
ElabRec(t, ctx, st, n, f, e) ==
  IF f = 0 THEN E6(t, TType, st, n, 0, e) ELSE
  CASE t.k \in {"hole", "type", "int", "bool"} -> E6(t, TType, st, n, f, e)
    [] t.k = "lit" -> E6(t, TInt, st, n, f, e)
    [] t.k \in {"true", "false"} -> E6(t, TBool, st, n, f, e)
    [] t.k = "var" -> E6(t, IF t.i < Len(ctx) THEN EntryTyS(ctx, t.i, st) ELSE TType, st, n, f, e)
    [] t.k = "lam" ->
         LET d == ElabRec(t.a, ctx, st, n, f - 1, e)
             d1 == Chk(d.ty, TType, ctx, d)
             b == ElabRec(t.b, PushParam(ctx, d.el), d1.st, d1.n, d1.f, d1.e)
         IN E6([t EXCEPT !.a = d.el, !.b = b.el], Binder("pi", t.n, t.imp, d.el, b.ty), b.st, b.n, b.f, b.e)
    [] t.k = "pi" ->
         LET d == ElabRec(t.a, ctx, st, n, f - 1, e)
             d1 == Chk(d.ty, TType, ctx, d)
             c == ElabRec(t.b, PushParam(ctx, d.el), d1.st, d1.n, d1.f, d1.e)
             c1 == Chk(c.ty, TType, PushParam(ctx, d.el), c)
         IN E6([t EXCEPT !.a = d.el, !.b = c.el], TType, c1.st, c1.n, c1.f, c1.e)
    [] t.k = "app" ->
         LET fn == ElabRec(t.a, ctx, st, n, f - 1, e)
             dh == Hole(Len(fn.st) + 1, 0)
             ch == Hole(Len(fn.st) + 2, 0)
             st2 == fn.st \o <<Unsolved, Unsolved>>
             u1 == Chk(Binder("pi", "_", FALSE, dh, ch), fn.ty, ctx, [fn EXCEPT !.st = st2])
             x == ElabRec(t.b, ctx, u1.st, u1.n, u1.f, u1.e)
             u2 == Chk(dh, x.ty, ctx, x)
             o == OpenS(ch, 0, x.el, 0, u2.st, u2.n)
         IN E6(App(fn.el, x.el), o.t, o.st, o.n, u2.f, u2.e)
    [] t.k = "let" ->
         LET m == Len(t.defs)
             ctx2 == PushGroup(ctx, t.defs)
             RECURSIVE go(_,_)
             \* acc carries the store; returns the elaborated definitions
             go(j, r) == IF j > m THEN [ds |-> <<>>, r |-> r] ELSE
                 LET an == ElabRec(t.defs[j].ann, ctx2, r.st, r.n, r.f, r.e)
                     an1 == Chk(an.ty, TType, ctx2, an)
                     df == ElabRec(t.defs[j].def, ctx2, an1.st, an1.n, an1.f, an1.e)
                     df1 == Chk(df.ty, t.defs[j].ann, ctx2, df)
                     rest == go(j + 1, df1)
                 IN [ds |-> <<[t.defs[j] EXCEPT !.def = df.el]>> \o rest.ds, r |-> rest.r]
             g == go(1, E6(t, TType, st, n, f - 1, e))
             b == ElabRec(t.b, ctx2, g.r.st, g.r.n, g.r.f, g.r.e)
             RECURSIVE fold(_,_,_,_)
             fold(i, acc, st1, n1) == IF i >= m THEN R3(acc, st1, n1) ELSE
                 LET k == m - 1 - i
                     grp == LetT(Mat([q \in 1..m |-> [g.ds[q] EXCEPT !.ann = UpS(g.ds[q].ann, m, k, st1), !.def = UpS(g.ds[q].def, m, k, st1)]], m), Var(i))
                     o == OpenS(acc, 0, grp, 0, st1, n1)
                 IN fold(i + 1, o.t, o.st, o.n)
             ty == fold(0, b.ty, b.st, b.n)
         IN E6(LetT(g.ds, b.el), ty.t, ty.st, ty.n, b.f, b.e)
    [] t.k = "neg" ->
         LET s == ElabRec(t.a, ctx, st, n, f - 1, e)  s1 == Chk(s.ty, TInt, ctx, s)
         IN E6(NegT(s.el), TInt, s1.st, s1.n, s1.f, s1.e)
    [] t.k = "bin" ->
         LET a == ElabRec(t.a, ctx, st, n, f - 1, e)  a1 == Chk(a.ty, TInt, ctx, a)
             b == ElabRec(t.b, ctx, a1.st, a1.n, a1.f, a1.e)  b1 == Chk(b.ty, TInt, ctx, b)
         IN E6(Bin(t.op, a.el, b.el), IF t.op \in CmpOps THEN TBool ELSE TInt, b1.st, b1.n, b1.f, b1.e)
    [] t.k = "if" ->
         LET c == ElabRec(t.c, ctx, st, n, f - 1, e)  c1 == Chk(c.ty, TBool, ctx, c)
             a == ElabRec(t.a, ctx, c1.st, c1.n, c1.f, c1.e)
             b == ElabRec(t.b, ctx, a.st, a.n, a.f, a.e)
             u == Chk(a.ty, b.ty, ctx, b)
         IN E6(IfT(c.el, a.el, b.el), a.ty, u.st, u.n, u.f, u.e)
\* largest hole identity of a term (the source's holes are numbered 1..k)
RECURSIVE MaxHole(_)
MaxHole(t) ==
  LET mx(S) == IF S = {} THEN 0 ELSE CHOOSE x \in S : \A y \in S : y <= x IN
  CASE t.k = "hole" -> t.id
    [] t.k \in {"lam","pi","app","bin"} -> mx({MaxHole(t.a), MaxHole(t.b)})
    [] t.k = "neg" -> MaxHole(t.a)
    [] t.k = "if" -> mx({MaxHole(t.c), MaxHole(t.a), MaxHole(t.b)})
    [] t.k = "let" -> mx({MaxHole(t.b)} \cup UNION { {MaxHole(t.defs[j].ann), MaxHole(t.defs[j].def)} : j \in 1..Len(t.defs) })
    [] OTHER -> 0
\* the top level: [r |-> "accept" | "reject" | "fuel", el, ty (both with solutions filled in), copies]
ElabTop(src, fuel) ==
  LET k == MaxHole(src)
      r == ElabRec(src, <<>>, [j \in 1..k |-> Unsolved], 0, fuel, 0)
      el == Res(r.el, r.st, 60)
      ty == Res(r.ty, r.st, 60)
  IN IF r.f = 0 \/ ~el.ok \/ ~ty.ok THEN [r |-> "fuel"]
     ELSE IF r.e > 0 THEN [r |-> "reject", errs |-> r.e, copies |-> r.n]
     ELSE IF HasHole(el.t) THEN [r |-> "reject", errs |-> 0, copies |-> r.n]
     ELSE [r |-> "accept", el |-> el.t, ty |-> ty.t, copies |-> r.n]
====
