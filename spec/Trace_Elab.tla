---- MODULE Trace_Elab ----
\* Conformance of the real type checker with the elaborator specification (GramElab, CopyHoles = the code's behaviour): for
\* every recorded program (source term with its holes as parsed, verdict, elaborated term and type with solutions filled in)
\* TLC runs ElabTop on the source and compares verdict, elaborated term and type.
EXTENDS GramElab, Json, IOUtils
Rec == ndJsonDeserialize(IOEnv.TRACE)
VARIABLE l
Bad(what) == Print(<<"TRACE-REJECT", l, what>>, TRUE)
IsNone(t) == t.k = "none"
\* identity modulo names and the IDENTITIES of unsolved holes (the recorder numbers holes in order of appearance, the
\* specification in order of allocation); annotations and shifts are compared
RECURSIVE Shape(_,_)
Shape(x, y) ==
  /\ x.k = y.k
  /\ CASE x.k = "var" -> x.i = y.i
       [] x.k = "hole" -> x.sh = y.sh
       [] x.k = "lit" -> x.v = y.v
       [] x.k \in {"lam","pi"} -> x.imp = y.imp /\ Shape(x.a, y.a) /\ Shape(x.b, y.b)
       [] x.k = "app" -> Shape(x.a, y.a) /\ Shape(x.b, y.b)
       [] x.k = "bin" -> x.op = y.op /\ Shape(x.a, y.a) /\ Shape(x.b, y.b)
       [] x.k = "neg" -> Shape(x.a, y.a)
       [] x.k = "if" -> Shape(x.c, y.c) /\ Shape(x.a, y.a) /\ Shape(x.b, y.b)
       [] x.k = "let" -> Len(x.defs) = Len(y.defs) /\ (\A j \in 1..Len(x.defs) : Shape(x.defs[j].ann, y.defs[j].ann) /\ Shape(x.defs[j].def, y.defs[j].def)) /\ Shape(x.b, y.b)
       [] OTHER -> TRUE
Ev(e) ==
  LET src == IF IsNone(e.src) THEN e.gen ELSE e.src IN
  IF IsNone(src) THEN TRUE ELSE
  LET s == ElabTop(src, 3000) IN
  IF s.r = "fuel" THEN Print(<<"TRACE-NOTE", l, "elaborator specification out of fuel">>, TRUE)
  ELSE IF s.r = "accept" /\ ~e.accepted THEN Bad(<<"ELAB", "the specification's elaborator accepts, the checker rejects", "copies", s.copies>>)
  ELSE IF s.r = "reject" /\ e.accepted THEN Bad(<<"ELAB", "the specification's elaborator rejects, the checker accepts", "errors", s.errs, "copies", s.copies>>)
  ELSE IF s.r = "accept" /\ ~Shape(s.el, e.elab) THEN Bad(<<"ELAB", "elaborated terms differ">>)
  ELSE IF s.r = "accept" /\ ~Shape(s.ty, e.ty) THEN Bad(<<"ELAB", "reported types differ (syntactically)">>)
  ELSE TRUE
TInit == l = 1
TNext == l <= Len(Rec) /\ l' = l + 1 /\ (IF Rec[l].ev = "prog" THEN Ev(Rec[l]) ELSE TRUE)
TSpec == TInit /\ [][TNext]_l
TraceAccepted == IF TLCGet("stats").diameter - 1 = Len(Rec) THEN TRUE ELSE Print(<<"TRACE-STOPPED-AT", TLCGet("stats").diameter>>, FALSE)
====
