---- MODULE MC_RewriteHosts ----
\* C19 beyond the exhaustive bound: host programs recorded from the real parser (type-directed generated programs, the
\* corpus) are read from a file; TLC computes every enabled rewrite of each host.
EXTENDS GramRewrite, Json, IOUtils
Hosts == ndJsonDeserialize(IOEnv.HOSTS)
VARIABLE i
Init == i = 0
Next == i < Len(Hosts) /\ i' = i + 1
Emit == (i >= 1) => PrintT(<<"REWRITE", ToJson([t |-> Hosts[i].t, rs |-> Rewrites(Hosts[i].t)])>>)
====
