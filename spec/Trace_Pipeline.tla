---- MODULE Trace_Pipeline ----
\* Direction B for C01 - C05 (and the pipeline part of C14): one event per program run through the real
\* tokenize -> parse -> type_check -> step* .  Each clause names the property it decides; a rejection is
\* reported as <<"TRACE-REJECT", line, <<property, what, ...>>>>.
EXTENDS GramTyping, GramSem, Json, IOUtils
Rec == ndJsonDeserialize(IOEnv.TRACE)
VARIABLE l
FUEL == 3000
Bad(what) == Print(<<"TRACE-REJECT", l, what>>, TRUE)
IsNone(x) == x.k = "none"
\* every recorded step is the specification's step (same reduction strategy, same result)
\* An implementation step without a counterpart: where the source had a hole, the elaborated term still holds the (solved) hole
\* cell, and the evaluator spends one step replacing it by its solution.  Terms are recorded with solutions filled in, so that
\* step is invisible: a stuttering step, admitted only for programs whose source had holes.
RECURSIVE StepsOK(_,_,_,_)
StepsOK(cur, steps, j, stutter) ==
  IF j > Len(steps) THEN [ok |-> TRUE, cur |-> cur] ELSE
  LET s == Step(cur) IN
  IF s.r = "step" /\ Ident(s.t, steps[j]) THEN StepsOK(steps[j], steps, j + 1, stutter)
  ELSE IF stutter /\ Ident(cur, steps[j]) THEN StepsOK(cur, steps, j + 1, stutter)
  ELSE [ok |-> FALSE, at |-> j, cur |-> cur]
Accepted(e) ==
  LET i == Infer(e.elab, <<>>, FUEL)
      src == IF IsNone(e.src) THEN e.gen ELSE e.src
  IN
  /\ IF i.r = "ill" THEN Bad(<<"C03", "accepted, but the elaborated term is ill typed", i.why, "holes_opened", e.holes_opened, "has_hole", HasHole(e.elab)>>) ELSE TRUE
  /\ IF i.r = "ok" /\ ConvH(i.ty, e.ty, <<>>, FUEL).r = "no" THEN Bad(<<"C03", "reported type is not the type of the elaborated term", "holes_opened", e.holes_opened, "has_hole", HasHole(e.elab) \/ HasHole(e.ty)>>) ELSE TRUE
  /\ IF ~SameModuloHoles(src, e.elab) THEN Bad(<<"C05", "elaboration is not the source with holes filled in">>) ELSE TRUE
  /\ IF HasHole(e.elab) THEN Bad(<<"C01", "accepted with an unfilled hole", "holes_opened", e.holes_opened>>) ELSE TRUE
  \* the clauses below are judged independently: one observation may break several statements (a wrong step that ends stuck is
  \* a C02 and a C01 observation), and every check filters by its own tag
  \* Where the source had holes the elaborated term holds solved hole cells; the evaluator spends steps of its own on replacing
  \* them by their solutions, and a definition that is a solved hole is not yet a value for it while the recorded term (solutions
  \* filled in) shows a value: the order and the number of steps then differ from the specification's although every result
  \* agrees.  Step-by-step comparison is therefore made for programs without holes only; programs with holes are judged on
  \* their outcome (stuck / value, the big-step semantics, the type of the value) below.
  /\ LET holey == ~IsNone(src) /\ HasHole(src)
         so == IF Len(e.steps) > 0 /\ ~holey THEN StepsOK(e.elab, e.steps, 1, FALSE) ELSE [ok |-> TRUE, cur |-> e.end] IN
     IF ~so.ok THEN Bad(<<"C02", "evaluation step differs from the semantics", so.at>>)
     ELSE IF ~holey /\ e.endk # "fuel" /\ Len(e.steps) = 0 /\ e.nsteps > 0 /\ e.nsteps <= 400 /\ ~Ident(StepN(e.elab, e.nsteps), e.end) THEN Bad(<<"C02", "final term differs from the semantics">>)
     ELSE TRUE
  /\ IF e.endk = "stuck" THEN
         (IF Step(e.end).r = "step" THEN Bad(<<"C01", "stuck although the semantics continues (a definition that is a value is available to its whole group)", "holes_opened", e.holes_opened>>)
          ELSE IF StuckReason(e.end) = "divzero" THEN TRUE
          ELSE Bad(<<"C01", "stuck", StuckReason(e.end), "holes_opened", e.holes_opened, "has_hole", HasHole(e.end)>>))
     ELSE TRUE
  /\ IF e.endk \in {"fuel", "stuck"} THEN TRUE
     ELSE IF Step(e.end).r = "step" \/ ~IsValue(e.end) THEN Bad(<<"C02", "reported as a value although it is not one">>)
     ELSE LET iv == Infer(e.end, <<>>, FUEL)
              \* the independent big-step semantics on the elaborated program (ground results of short runs)
              sem == IF e.end.k \in {"lit", "true", "false"} /\ e.nsteps <= 300 /\ ~HasHole(e.elab) THEN Ev(e.elab, <<>>, <<>>, 6000) ELSE [r |-> "skip"]
          IN
          \* "v itself has type T": judged on the real value and the real reported type, whatever the elaboration looks like
          /\ IF iv.r = "ill" \/ (iv.r = "ok" /\ ConvH(iv.ty, e.ty, <<>>, FUEL).r = "no")
             THEN Bad(<<"C04", "the value does not have the reported type", "holes_opened", e.holes_opened>>) ELSE TRUE
          /\ IF e.whnf.k # "none" /\ ~Ident(e.whnf, e.end) THEN Bad(<<"C06", "weak-head normalising the program (as the checker does) does not give the literal that running it gives">>) ELSE TRUE
          /\ IF sem.r = "ok" /\ ~( (e.end.k = "lit" /\ sem.v.v = "lit" /\ sem.v.n = e.end.v) \/ (e.end.k = "true" /\ sem.v.v = "bool" /\ sem.v.b) \/ (e.end.k = "false" /\ sem.v.v = "bool" /\ ~sem.v.b) )
             THEN Bad(<<"C02", "value differs from the big-step environment semantics">>)
             ELSE IF sem.r = "err" THEN Bad(<<"C02", "the big-step semantics is stuck where the program produced a value", sem.why>>) ELSE TRUE
Rejected(e) ==
  LET src == IF IsNone(e.src) THEN e.gen ELSE e.src IN
  /\ IF e.nerr < 1 THEN Bad(<<"C14", "rejected without a diagnostic">>) ELSE TRUE
  /\ IF IsNone(src) \/ HasHole(src) THEN TRUE ELSE
     LET i == Infer(src, <<>>, FUEL) IN
     IF i.r = "ok" /\ DefOrderOK(src) THEN Bad(<<"C05", "rejected although fully annotated and well typed", e.stage>>) ELSE TRUE
ProgEv(e) == IF e.accepted THEN Accepted(e) ELSE Rejected(e)
\* C14: an abnormal ending (stack exhaustion, time limit) of the checker or evaluator is admissible only on a program that
\* diverges by itself: the specification's own checker or evaluator runs out of fuel on it
CrashEv(e) ==
  LET i == Infer(e.src, <<>>, 400) IN
  IF i.r = "fuel" THEN TRUE
  ELSE IF i.r = "ok" /\ Run(e.src, 300).r = "fuel" THEN TRUE
  ELSE Bad(<<"C14", "abnormal ending on a program that does not diverge", e.what, "spec", i.r>>)
TInit == l = 1
TNext == /\ l <= Len(Rec) /\ l' = l + 1
         /\ LET e == Rec[l] IN
            CASE e.ev = "prog" -> ProgEv(e)
              [] e.ev = "crash" -> CrashEv(e)
              [] OTHER -> Bad(<<"tool", "unknown event">>)
TSpec == TInit /\ [][TNext]_l
TraceAccepted == IF TLCGet("stats").diameter - 1 = Len(Rec) THEN TRUE ELSE Print(<<"TRACE-STOPPED-AT", TLCGet("stats").diameter>>, FALSE)
====
