---- MODULE MC_Scope ----
\* C08: every named surface term up to MaxSize over two names and `_`, well scoped or not, with the verdict of
\* GramScope (number of scoping errors, De Bruijn index of every variable occurrence in source order, holes).
EXTENDS GramScope, Json
CONSTANT MaxSize
\* ---- builder
VARIABLES pre, pending, size
Init == pre = <<>> /\ pending = <<"any">> /\ size = 0
\* slot kinds: "any" (any term), "val" (syntactic value: type / lam / pi), "body" (let body: any; a let here may be parenthesised or not)
Fill(label, slots) == /\ pending # <<>> /\ size + Len(pending) + Len(slots) <= MaxSize
                      /\ pre' = Append(pre, label) /\ pending' = slots \o Tail(pending) /\ size' = size + 1
K == Head(pending)
Next == pending # <<>> /\
        (  Fill([k |-> "type"], <<>>)
        \/ (K # "val" /\ Fill([k |-> "hole"], <<>>))
        \/ (K # "val" /\ \E x \in Names : Fill([k |-> "var", n |-> x], <<>>))
        \/ (\E x \in Binders : Fill([k |-> "lam", n |-> x, hasann |-> FALSE], <<"any">>))
        \/ (\E x \in Binders : Fill([k |-> "lam", n |-> x, hasann |-> TRUE], <<"any", "any">>))
        \/ (\E x \in Binders : Fill([k |-> "pi", n |-> x], <<"any", "any">>))
        \/ (K # "val" /\ Fill([k |-> "ndpi"], <<"any", "any">>))
        \/ (K # "val" /\ Fill([k |-> "app"], <<"any", "any">>))
        \/ (K # "val" /\ \E x \in Binders : \E par \in (IF K = "body" THEN BOOLEAN ELSE {FALSE}) : Fill([k |-> "let", n |-> x, hasann |-> FALSE, p |-> par], <<"val", "body">>))
        \/ (K # "val" /\ \E x \in Binders : \E par \in (IF K = "body" THEN BOOLEAN ELSE {FALSE}) : Fill([k |-> "let", n |-> x, hasann |-> TRUE, p |-> par], <<"any", "val", "body">>)) )
RECURSIVE Build(_)
Build(q) == LET h == Head(q) r == Tail(q) IN
  CASE h.k \in {"type", "hole"} -> [t |-> [k |-> h.k], r |-> r]
    [] h.k = "var" -> [t |-> [k |-> "var", n |-> h.n], r |-> r]
    [] h.k = "lam" -> IF h.hasann THEN LET a == Build(r) b == Build(a.r) IN [t |-> [k |-> "lam", n |-> h.n, ann |-> a.t, b |-> b.t], r |-> b.r]
                      ELSE LET b == Build(r) IN [t |-> [k |-> "lam", n |-> h.n, ann |-> NoAnn, b |-> b.t], r |-> b.r]
    [] h.k = "pi" -> LET a == Build(r) b == Build(a.r) IN [t |-> [k |-> "pi", n |-> h.n, a |-> a.t, b |-> b.t], r |-> b.r]
    [] h.k \in {"ndpi", "app"} -> LET a == Build(r) b == Build(a.r) IN [t |-> [k |-> h.k, a |-> a.t, b |-> b.t], r |-> b.r]
    [] h.k = "let" -> IF h.hasann THEN LET an == Build(r) d == Build(an.r) b == Build(d.r) IN [t |-> [k |-> "let", n |-> h.n, ann |-> an.t, d |-> d.t, b |-> b.t, p |-> h.p], r |-> b.r]
                      ELSE LET d == Build(r) b == Build(d.r) IN [t |-> [k |-> "let", n |-> h.n, ann |-> NoAnn, d |-> d.t, b |-> b.t, p |-> h.p], r |-> b.r]
Done == pending = <<>>
Emit == Done => LET t == Build(pre).t  r == R(t, <<>>) IN PrintT(<<"SCOPE", ToJson([toks |-> U(t), errs |-> r.errs, idx |-> r.idx, holes |-> Holes(t)])>>)
====
