---- MODULE Trace_Context ----
\* C18: checking / normalising an open term under a context of parameters and definitions agrees with checking the closed
\* program obtained by binding those variables around it, and the caller's contexts are left exactly as they were.
\* An event carries the peeled binders (outermost first), the open term, the real results for both forms and the real
\* contexts before and after the call.
EXTENDS GramTyping, Json, IOUtils
Rec == ndJsonDeserialize(IOEnv.TRACE)
VARIABLE l
FUEL == 2000
Bad(what) == Print(<<"TRACE-REJECT", l, what>>, TRUE)
\* binders: sequence of [k |-> "lam", a] | [k |-> "let", defs]
RECURSIVE Close(_,_,_)
\* wrap term t (or type, with pi for parameters when asType) in the binders, innermost last
Close(bs, t, asType) ==
  IF bs = <<>> THEN t ELSE
  LET b == bs[Len(bs)]  rest == SubSeq(bs, 1, Len(bs) - 1)
      w == IF b.k = "lam" THEN Binder(IF asType THEN "pi" ELSE "lam", "?", b.imp, b.a, t) ELSE LetT(b.defs, t)
  IN Close(rest, w, asType)
RECURSIVE CtxOf(_,_,_)
CtxOf(bs, i, ctx) == IF i > Len(bs) THEN ctx ELSE CtxOf(bs, i + 1, IF bs[i].k = "lam" THEN PushParam(ctx, bs[i].a) ELSE PushGroup(ctx, bs[i].defs))
CtxEv(e) ==
  LET wrap == Infer(Close(e.binders, TType, FALSE), <<>>, FUEL)           \* are the binder parts themselves well typed?
      ctx == CtxOf(e.binders, 1, <<>>)
  IN
  IF ~e.ctx_restored THEN Bad(<<"C18", "the caller's contexts were modified", e.ctx_note>>)
  ELSE IF wrap.r # "ok" THEN TRUE                                          \* the context is not well formed: no obligation
  ELSE IF e.crashed THEN TRUE
  ELSE IF ~HasHole(e.open) /\ LET i0 == Infer(e.open, ctx, FUEL) IN (i0.r = "ok" /\ ~e.ok_open) \/ (i0.r = "ill" /\ e.ok_open)
       THEN Bad(<<"C18", "verdict under the context differs from the specification's verdict for the open term in that context", "impl", e.ok_open>>)
  ELSE IF e.ok_open # e.ok_closed THEN Bad(<<"C18", "verdict under the context differs from the verdict on the closed program", "open", e.ok_open, "closed", e.ok_closed>>)
  ELSE IF ~e.ok_open THEN TRUE
  ELSE IF ConvH(Close(e.binders, e.ty_open, TRUE), e.ty_closed, <<>>, FUEL).r = "no" THEN Bad(<<"C18", "type under the context, closed over the context, differs from the type of the closed program">>)
  ELSE LET i == Infer(e.open, ctx, FUEL) IN
       IF i.r = "ok" /\ ConvH(i.ty, e.ty_open, ctx, FUEL).r = "no" THEN Bad(<<"C18", "type reported under the context is not the type of the open term in that context">>)
       ELSE IF e.whnf_open.k # "none" /\ Conv(Close(e.binders, e.whnf_open, FALSE), Close(e.binders, e.open, FALSE), <<>>, FUEL).r = "no"
            THEN Bad(<<"C18", "weak-head normal form under the context is not convertible with the term">>)
       \* the closed program normalised on its own (definitions substituted, not looked up) must agree as well
       ELSE IF e.whnf_closed.k # "none" /\ Conv(e.whnf_closed, Close(e.binders, e.open, FALSE), <<>>, FUEL).r = "no"
            THEN Bad(<<"C18", "weak-head normal form of the closed program is not convertible with the program">>)
       \* under the context the term and its weak-head normal form are the same term, in either order
       ELSE IF e.whnf_open.k # "none" /\ ~HasHole(e.open) /\ (~e.self_unify \/ ~e.self_unify_swapped)
            THEN Bad(<<"C18", "under the context a term does not unify with its own weak-head normal form", "term first", e.self_unify, "normal form first", e.self_unify_swapped>>)
       ELSE TRUE
TInit == l = 1
TNext == l <= Len(Rec) /\ l' = l + 1 /\ (IF Rec[l].ev = "ctx" THEN CtxEv(Rec[l]) ELSE Bad(<<"tool", "unknown event">>))
TSpec == TInit /\ [][TNext]_l
TraceAccepted == IF TLCGet("stats").diameter - 1 = Len(Rec) THEN TRUE ELSE Print(<<"TRACE-STOPPED-AT", TLCGet("stats").diameter>>, FALSE)
====
