---- MODULE Trace_Lexer ----
\* Direction B for C09 / C10: observations of the real tokenizer on random Unicode texts (characters logged with
\* class, width and grapheme boundary computed independently of the tokenizer) and on re-layouts of programs.
EXTENDS GramLayout, GramInt, Json, IOUtils
Rec == ndJsonDeserialize(IOEnv.TRACE)
VARIABLE l
Bad(what) == Print(<<"TRACE-REJECT", l, what>>, TRUE)   \* keep going: every event is judged
Has(r, f) == f \in DOMAIN r
\* which line break of a gap carries the terminator is not fixed by the statement
TokMatch(text, st, ot, lo, hi) ==
  /\ st.k = ot.k /\ ot.onb
  /\ IF st.k = "NLTERM" THEN ot.e = ot.s + 1 /\ lo <= ot.s /\ ot.e <= hi /\ (\E i \in 1..Len(text) : text[i].cls = "nl" /\ Offset(text, i) = ot.s)
     ELSE st.s = ot.s /\ st.e = ot.e /\ st.v = ot.v
  /\ (st.k = "INTEGER_LITERAL" => DigitsToInt(st.v) = ot.val)
\* mode "sig": only the significant tokens are compared (C09: the partition of the text); whether a line break
\* becomes a terminator is C10's subject (mode "full")
OnlySig(toks) == SelectSeq(toks, LAMBDA t : t.k # "NLTERM")
LexEv(e) ==
  LET r0 == Lex(e.text)
      r == IF e.mode = "sig" /\ r0.ok THEN [r0 EXCEPT !.toks = OnlySig(@)] ELSE r0
      o == IF e.mode = "sig" /\ ~Has(e.obs, "panic") /\ e.obs.ok THEN [e.obs EXCEPT !.toks = OnlySig(@)] ELSE e.obs IN
  IF Has(o, "panic") THEN Bad("tokenize panicked")
  ELSE IF r.ok # o.ok THEN Bad("accept/reject differs from the specification")
  ELSE IF r.ok THEN
     IF Len(r.toks) # Len(o.toks) THEN Bad("number of tokens")
     ELSE IF \A t \in 1..Len(r.toks) : TokMatch(e.text, r.toks[t], o.toks[t], IF t = 1 THEN 0 ELSE o.toks[t-1].e, IF t = Len(r.toks) THEN Total(e.text) ELSE o.toks[t+1].s)
          THEN (IF Len(e.text) <= 40 /\ ~Correct(e.text, [ok |-> TRUE, toks |-> o.toks]) THEN Bad("observation violates the declarative tokenization predicates") ELSE TRUE)
          ELSE Bad("token kinds / ranges / values")
  ELSE IF { <<o.errs[j].s, o.errs[j].e>> : j \in 1..Len(o.errs) } = { <<r.errs[j].s, r.errs[j].e>> : j \in 1..Len(r.errs) } /\ Len(o.errs) = Len(r.errs)
       THEN TRUE ELSE Bad(<<"reported unexpected symbols", "spec-only", { <<r.errs[j].s, r.errs[j].e>> : j \in 1..Len(r.errs) } \ { <<o.errs[j].s, o.errs[j].e>> : j \in 1..Len(o.errs) },
                                  "impl-only", { <<o.errs[j].s, o.errs[j].e>> : j \in 1..Len(o.errs) } \ { <<r.errs[j].s, r.errs[j].e>> : j \in 1..Len(r.errs) }>>)
\* C10: two layouts of one program (the second obtained by refilling gaps as the rule allows) must give the same tokens
\* modulo ranges and terminator kind, and the same parse result modulo ranges
ProjObs(toks) == [i \in 1..Len(toks) |-> [k |-> IF toks[i].k = "NLTERM" THEN "TERMINATOR" ELSE toks[i].k, v |-> toks[i].v]]
RelayoutEv(e) ==
  \* the specification decides whether tb is a legal re-layout of ta (same tokens by the rule); if not, the
  \* driver's guess was wrong and the event says nothing
  IF ~SameTokens(Lex(e.ta), Lex(e.tb)) THEN Print(<<"RELAYOUT-DISCARDED", l>>, TRUE)
  ELSE IF Has(e.a, "panic") \/ Has(e.b, "panic") THEN Bad("tokenize panicked")
  ELSE IF e.a.ok # e.b.ok THEN Bad("re-layout changes acceptance by the tokenizer")
  ELSE IF e.a.ok /\ ProjObs(e.a.toks) # ProjObs(e.b.toks) THEN Bad("re-layout changes the token stream")
  ELSE IF e.pa # e.pb THEN Bad("re-layout changes the parse result")
  ELSE TRUE
TInit == l = 1
TNext == /\ l <= Len(Rec) /\ l' = l + 1
         /\ LET e == Rec[l] IN
            CASE e.ev = "lex" -> LexEv(e)
              [] e.ev = "relayout" -> RelayoutEv(e)
              [] OTHER -> Bad("unknown event")
TSpec == TInit /\ [][TNext]_l
TraceAccepted == IF TLCGet("stats").diameter - 1 = Len(Rec) THEN TRUE ELSE Print(<<"TRACE-STOPPED-AT", TLCGet("stats").diameter>>, FALSE)
====
