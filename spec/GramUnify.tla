---- MODULE GramUnify ----
\* C12: what a successful unification must have achieved, as predicates over the two terms and the hole store
\* AFTER the call (src/unifier.rs unify).  store[id] is the recorded solution of hole id (a term of the hole's home
\* context) or [k |-> "none"].  An occurrence [k |-> "hole", id, sh] stands for its solution raised by sh.
EXTENDS GramTyping
Unsolved == [k |-> "none"]
\* fill in the recorded solutions (fuel guards against cyclic stores): [ok, t]
RECURSIVE Res(_,_,_)
Res(t, st, f) ==
  IF f = 0 THEN [ok |-> FALSE] ELSE
  CASE t.k = "hole" -> IF t.id > Len(st) \/ st[t.id].k = "none" THEN [ok |-> TRUE, t |-> t]
                       ELSE LET r == Res(st[t.id], st, f - 1) IN IF r.ok THEN [ok |-> TRUE, t |-> Up(r.t, 0, t.sh)] ELSE r
    [] t.k \in {"lam","pi","app","bin"} -> LET a == Res(t.a, st, f) b == Res(t.b, st, f) IN IF a.ok /\ b.ok THEN [ok |-> TRUE, t |-> [t EXCEPT !.a = a.t, !.b = b.t]] ELSE [ok |-> FALSE]
    [] t.k = "neg" -> LET a == Res(t.a, st, f) IN IF a.ok THEN [ok |-> TRUE, t |-> [t EXCEPT !.a = a.t]] ELSE a
    [] t.k = "if" -> LET c == Res(t.c, st, f) a == Res(t.a, st, f) b == Res(t.b, st, f) IN IF c.ok /\ a.ok /\ b.ok THEN [ok |-> TRUE, t |-> [t EXCEPT !.c = c.t, !.a = a.t, !.b = b.t]] ELSE [ok |-> FALSE]
    [] t.k = "let" -> LET n == Len(t.defs)
                          an == Mat([j \in 1..n |-> Res(t.defs[j].ann, st, f)], n)
                          df == Mat([j \in 1..n |-> Res(t.defs[j].def, st, f)], n)
                          b == Res(t.b, st, f) IN
                      IF b.ok /\ \A j \in 1..n : an[j].ok /\ df[j].ok
                      THEN [ok |-> TRUE, t |-> [t EXCEPT !.defs = Mat([j \in 1..n |-> [t.defs[j] EXCEPT !.ann = an[j].t, !.def = df[j].t]], n), !.b = b.t]] ELSE [ok |-> FALSE]
    [] OTHER -> [ok |-> TRUE, t |-> t]
\* hole occurrences [id, home] with home = binder depth of the occurrence - its shift
RECURSIVE Occs(_,_)
Occs(t, d) ==
  CASE t.k = "hole" -> {[id |-> t.id, home |-> d - t.sh]}
    [] t.k \in {"lam","pi"} -> Occs(t.a, d) \cup Occs(t.b, d+1)
    [] t.k \in {"app","bin"} -> Occs(t.a, d) \cup Occs(t.b, d)
    [] t.k = "neg" -> Occs(t.a, d)
    [] t.k = "if" -> Occs(t.c, d) \cup Occs(t.a, d) \cup Occs(t.b, d)
    [] t.k = "let" -> LET n == Len(t.defs) IN Occs(t.b, d+n) \cup UNION { Occs(t.defs[j].ann, d+n) \cup Occs(t.defs[j].def, d+n) : j \in 1..n }
    [] OTHER -> {}
Acyclic(a, b, st) == Res(a, st, 40).ok /\ Res(b, st, 40).ok /\ \A id \in 1..Len(st) : st[id].k = "none" \/ Res(st[id], st, 40).ok
\* every solution mentions only variables in scope where its hole was written (D = depth of the context of a and b)
ScopeSafe(a, b, st, D) == \A o \in Occs(a, D) \cup Occs(b, D) :
    (o.id <= Len(st) /\ st[o.id].k # "none") => LET r == Res(st[o.id], st, 40) IN r.ok => \A v \in FV(r.t, 0) : v < o.home
\* filling the holes makes the two terms definitionally equal
Consistent(a, b, st, ctx) == LET ra == Res(a, st, 40) rb == Res(b, st, 40) IN ra.ok /\ rb.ok /\ Conv(ra.t, rb.t, ctx, 2000).r # "no"
\* ... equal at least when every hole that is STILL unsolved may stand for anything (signature of the recorded
\* finding: an unsolved hole copied by `open`, so that a fresh copy was solved instead)
ConsistentModuloUnsolved(a, b, st, ctx) == LET ra == Res(a, st, 40) rb == Res(b, st, 40) IN ra.ok /\ rb.ok /\ ConvH(ra.t, rb.t, ctx, 2000).r # "no"

\* ---- generator side: punch holes into a term -----------------------------------------------------------
RECURSIVE Subterms(_,_,_)
\* all [pos, d (binders crossed), sub]
Subterms(t, pos, d) ==
  {[pos |-> pos, d |-> d, sub |-> t]} \cup
  CASE t.k \in {"lam","pi"} -> Subterms(t.a, Append(pos, "a"), d) \cup Subterms(t.b, Append(pos, "b"), d + 1)
    [] t.k \in {"app","bin"} -> Subterms(t.a, Append(pos, "a"), d) \cup Subterms(t.b, Append(pos, "b"), d)
    [] t.k = "neg" -> Subterms(t.a, Append(pos, "a"), d)
    [] t.k = "if" -> Subterms(t.c, Append(pos, "c"), d) \cup Subterms(t.a, Append(pos, "a"), d) \cup Subterms(t.b, Append(pos, "b"), d)
    [] t.k = "let" -> Subterms(t.b, Append(pos, "b"), d + Len(t.defs))
                      \cup UNION { Subterms(t.defs[j].ann, pos \o <<"ann", ToString(j)>>, d + Len(t.defs)) \cup Subterms(t.defs[j].def, pos \o <<"def", ToString(j)>>, d + Len(t.defs)) : j \in 1..Len(t.defs) }
    [] OTHER -> {}
\* positions are sequences of strings (TLC cannot compare a string with a number): a definition index is written as text
DefIdx(t, str) == CHOOSE j \in 1..Len(t.defs) : ToString(j) = str
RECURSIVE Replace(_,_,_)
Replace(t, pos, new) ==
  IF pos = <<>> THEN new ELSE
  LET h == Head(pos) r == Tail(pos) IN
  CASE h = "a" -> [t EXCEPT !.a = Replace(t.a, r, new)]
    [] h = "b" -> [t EXCEPT !.b = Replace(t.b, r, new)]
    [] h = "c" -> [t EXCEPT !.c = Replace(t.c, r, new)]
    [] h = "ann" -> LET j == DefIdx(t, Head(r)) IN [t EXCEPT !.defs[j].ann = Replace(t.defs[j].ann, Tail(r), new)]
    [] h = "def" -> LET j == DefIdx(t, Head(r)) IN [t EXCEPT !.defs[j].def = Replace(t.defs[j].def, Tail(r), new)]
IsPrefixPos(p, q) == Len(p) <= Len(q) /\ SubSeq(q, 1, Len(p)) = p
====
