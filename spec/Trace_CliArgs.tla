---- MODULE Trace_CliArgs ----
\* Launches of the real binary with every form of invocation on files of every class, judged against GramCli!Obs; launches of the
\* same file as `gram P` and `gram run P` must produce byte-identical streams (hashes recorded).
EXTENDS GramCli, Sequences, Json, IOUtils
Rec == ndJsonDeserialize(IOEnv.TRACE)
VARIABLES l, seen
Bad(what) == Print(<<"TRACE-REJECT", l, what>>, TRUE)
Ev(e) ==
  LET i == [form |-> e.form, file |-> e.file, front |-> e.front, run |-> e.run]
      want == Obs(i)
      got == O(e.exit, e.outlen > 0, e.errlen > 0, e.nerr >= 1)
  IN
  /\ IF got # want THEN Bad(<<IF e.form \in {"check", "run", "path"} /\ e.file \in {"ok", "badutf8"} THEN "C14" ELSE "CLI", "observation differs from the command-line specification", e.form, e.file, e.front, e.run,
                             "exit", e.exit, "stdout", e.outlen, "stderr", e.errlen, "errors", e.nerr>>) ELSE TRUE
  /\ IF e.form \in {"path", "run"} /\ \E s \in seen : s.key = e.key /\ s.form # e.form /\ s.form \in {"path", "run"} /\ (s.out # e.out \/ s.err # e.err \/ s.exit # e.exit)
     THEN Bad(<<"CLI", "`gram P` and `gram run P` differ", e.key>>) ELSE TRUE
  /\ seen' = seen \cup {[key |-> e.key, form |-> e.form, out |-> e.out, err |-> e.err, exit |-> e.exit]}
TInit == l = 1 /\ seen = {}
TNext == l <= Len(Rec) /\ l' = l + 1 /\ Ev(Rec[l])
TSpec == TInit /\ [][TNext]_<<l, seen>>
TraceAccepted == IF TLCGet("stats").diameter - 1 = Len(Rec) THEN TRUE ELSE Print(<<"TRACE-STOPPED-AT", TLCGet("stats").diameter>>, FALSE)
====
