#!/usr/bin/env python3
"""Warms the cache of TLC generation runs used by the quick tier (they depend only on the specification, not on /repo).
Run by bin/setup; a check that finds no cached run simply generates it itself."""
import os, sys
sys.path.insert(0, os.path.dirname(os.path.abspath(__file__)))
import vf, grammar
from checks import c07, c08, c11, c12, c06, c19, c15, lexcommon as lc, pipecommon as pc, c10


def main():
    grammar.generate()
    jobs = []
    F, AO, AL = c11.FORMERS, c11.ALLOPS, c11.ALLLEAF
    jobs += [("MC_Term", c11.cfg(3, 1, F | AL | {"let3"}, AO, {0, 1}), "c11-small-all"), ("MC_Term", c11.cfg(5, 1, F, {"sum", "lt"}, {1}), "c11-main"),
             ("MC_Term", c11.cfg(7, 6, {"type", "var", "lam", "app", "let2"}, {"sum"}, {1}), "c11-groups2"),
             ("MC_Term", c11.cfg(8, 8, {"var", "let3"}, {"sum"}, {1}, freevars=1, maxidx=3), "c11-groups3")]
    for a in lc.ALPHABETS:
        jobs.append(("MC_Lexer", lc.lexer_cfg(a, 5, lc.ALPHABETS[a]), "lex-%s-5" % a))
    jobs.append(("MC_LayoutPairs", c10.PAIRS_CFG, "layout-pairs"))
    jobs.append(("MC_LayoutKinds", "INIT Init\nNEXT Next\nINVARIANTS RuleEquivalent NeverTwoNl\nCHECK_DEADLOCK FALSE\n", "layout-kinds"))
    ops = ["sum", "quot", "lt"]
    jobs += [("MC_Programs", pc.prog_cfg(6, ops), "prog-s6"), ("MC_Programs", pc.prog_cfg(5, ops), "prog-s5"),
             ("MC_Programs", pc.prog_cfg(5, ["sum", "lt"], holes=True), "prog-holes"), ("MC_Programs", pc.prog_cfg(4, ["sum", "lt"], holes=True), "prog-holes4"),
             ("MC_Programs", pc.prog_cfg(4, ["sum", "diff", "prod", "quot", "lt", "le", "eq", "gt", "ge"], formers={"lit", "true", "false", "int", "var", "lam", "app", "bin", "neg", "if", "let1"}), "prog-allops")]
    jobs += [("MC_Grammar", c07.gram_cfg(5), "grammar-5"), ("MC_Grammar", c07.gram_cfg(4), "grammar-4"),
             ("MC_Trees", c07.trees_cfg(5, 1, c07.ALLKINDS, {"prod", "sum", "diff", "lt"}), "trees-5"),
             ("MC_Trees", c07.trees_cfg(7, 1, {"var", "lit", "app", "bin", "neg"}, {"prod", "diff"}), "trees-7-chains"),
             ("MC_Trees", c07.trees_cfg(6, 1, {"var", "type", "app", "lam", "pi", "ndpi", "let", "if"}, {"sum"}), "trees-6-binders"),
             ("MC_Scope", c08.cfg(6), "scope-6"), ("MC_Listing", c15.list_cfg(3, 2, "CharsQ"), "list-3x2"),
             ("MC_Punch", c12.cfg(4), "punch-0-4"), ("MC_Punch", c12.cfg(6, 1), "punch-1-6"), ("MC_Punch", c12.cfg(6, 2), "punch-2-6"), ("MC_Conv", c06.conv_cfg(5), "conv-5"), ("MC_Rewrite", c19.cfg(5), "rewrite-5")]
    jobs.append(("MC_Trees", vf.cfg_consts(MaxSize=5, MaxParens=0, MaxDrops=0, Kinds=c07.ALLKINDS, BinOps={"prod", "quot", "sum", "diff", "lt"}) +
                 "INIT Init\nNEXT Next\nINVARIANT InvShowValid\nCHECK_DEADLOCK FALSE\n", "showvalid-5"))
    jobs.append(("MC_Trees", c07.trees_cfg(5, 0, {"var", "type", "lam", "pi", "ndpi", "let", "if", "app", "neg"}, {"sum", "lt"}, drops=1), "trees-drop-binders-5"))
    jobs.append(("GramDefOrder", 'CONSTANTS N = 3  Mode = "sorted"\nINIT Init\nNEXT Next\nINVARIANTS Deterministic RefinesRule\nCHECK_DEADLOCK FALSE\n', "deforder-3"))
    jobs += [("MC_UnifyAlg", c12.alg_cfg(4, False, "AlgSound AlgReflRed"), "unifyalg-design-4"), ("MC_UnifyAlg", c12.alg_cfg(4, True, "AlgSoundModuloCopies AlgReflRed"), "unifyalg-code-4")]
    from checks import c17
    jobs.append(("GramPackrat", c17.PACKRAT_CFG, "packrat"))
    jobs.append(("MC_Trees", c07.trees_cfg(7, 0, {"var", "type", "pi", "let"}, {"sum"}), "trees-7-pilet"))
    jobs.append(("MC_Trees", c07.trees_cfg(7, 1, {"lit", "bin"}, {"prod", "quot", "sum", "diff"}), "trees-7-arith"))
    jobs.append(("MC_Punch", vf.cfg_consts(MaxSize=7, Skel=1, FreeVars=0, MaxIdx=3, TyFuel=400, Formers={"type", "int", "var", "lam", "let1", "app"}, Ops={"sum"}, Lits={1}) +
                 "INIT SInit\nNEXT BNext\nINVARIANTS Emit3\nCHECK_DEADLOCK FALSE\n", "punch-again-7"))
    jobs.append(("MC_ConvOps", "INIT Init\nNEXT Next\nINVARIANT Emit\nCHECK_DEADLOCK FALSE\n", "convops"))
    from checks import pegcommon
    sents, _ = pegcommon.sentences_file(5)
    for name, alphabet, n in pegcommon.models(True):
        cfg = vf.cfg_consts(N=n, Alphabet=set(alphabet)) + "INIT Init\nNEXT Next\nINVARIANT PegIsCfgAndSane\nCHECK_DEADLOCK FALSE\n"
        st = vf.tlc_generate("MC_Peg", cfg, "peg-" + name, workers=14, timeout=7200, env={"SENTS": sents})
        print("warm %-16s %-18s %s %6.1fs %d states" % ("MC_Peg", "peg-" + name, "cached" if st.get("cached") else "generated", st["wall_s"], st["distinct"]), flush=True)
    for module, cfg, name in jobs:
        heap = "20g" if module == "MC_Grammar" else "12g"
        st = vf.tlc_generate(module, cfg, name, timeout=6000, workers=14, heap=heap)
        print("warm %-16s %-18s %s %6.1fs %d states" % (module, name, "cached" if st.get("cached") else "generated", st["wall_s"], st["distinct"]), flush=True)


if __name__ == "__main__":
    main()
