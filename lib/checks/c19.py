"""C19 - meaning-preserving rewrites change neither acceptance nor result.
M  MC_Rewrite: on every accepted program <= S every enabled rewrite (unused definition, if true, applied annotated identity,
   naming a subexpression, reordering function definitions; chains of two) keeps the specification's verdict and outcome --
   this guards the REWRITES (their applicability conditions).
A  each (program, rewritten program) goes through the real pipeline, rendered with different bound-variable names, fully
   parenthesised and with gram's own minimal parentheses; acceptance and value must agree.  No reference semantics enters the
   verdict.  Larger hosts (type-directed programs, corpus) are rewritten by TLC from recorded parser output."""
import json, os
import vf
from checks import pipecommon as pc


def cfg(size):
    return vf.cfg_consts(MaxSize=size, FreeVars=0, MaxIdx=3, TyFuel=400, RunFuel=60, Formers=pc.FORMERS, Ops={"sum", "quot", "lt"}, Lits={0, 1}) + \
        "INIT BInit\nNEXT BNext\nINVARIANTS Preserved Emit\nCHECK_DEADLOCK FALSE\n"


def replay(c, out_txt, name):
    d = os.path.join(vf.WORK, "rewrite")
    os.makedirs(d, exist_ok=True)
    out = os.path.join(d, name + ".json")
    vf.gv(["replay-rewrite", out_txt, out], timeout=3000)
    r = json.load(open(out))
    c.cov["replayed_cases"] += r["rewritten_runs"]
    c.cov["traces_validated_against_impl"] += r["programs"]
    c.cov.setdefault("rewrites", {})[name] = {k: r[k] for k in r if k not in ("first", "sample")}
    c.cov["inconclusive"] += r["crashes"]
    if r.get("sample"):
        c.sample(r["sample"])
    for m in r["first"]:
        c.violate("rewrite %s changes the observation: `%s` vs `%s`" % (m["rule"], m["original"], m["rewritten"]), dict(m, kind="replay-rewrite"))
    return r


def run(c):
    vf.build_harness()
    size = 5 if c.quick else 6
    c.cov["bounds"] = {"program_size": size, "chains": 2, "generated_hosts": 60 if c.quick else 1500}
    st = vf.tlc_generate("MC_Rewrite", cfg(size), "rewrite-%d" % size, timeout=6000, workers=14)
    c.add_tlc(st, "every rewrite of every accepted program <= %d preserves verdict and outcome in the specification; generation" % size)
    if st["violated"]:
        c.spec_violation(st, "a rewrite is not meaning preserving in the specification (its guard is wrong)")
        return
    replay(c, st["out"], "enum-%d" % size)
    # every arithmetic tree (grouped operands inside chains of every operator family), rendered with redundant parentheses
    for nodes, lits in ((7, {3}),) if c.quick else ((7, {2, 3}), (9, {3})):
        sa = vf.tlc_generate("MC_Arith", vf.cfg_consts(MaxSize=nodes, FreeVars=0, MaxIdx=0, Formers={"lit", "bin"}, Ops={"sum", "diff", "prod", "quot"}, Lits=lits) +
                             "INIT BInit\nNEXT BNext\nINVARIANT Emit\nCHECK_DEADLOCK FALSE\n", "arith-%d-%d" % (nodes, len(lits)), timeout=6000, workers=14)
        c.add_tlc(sa, "all arithmetic trees <= %d nodes; generation" % nodes)
        replay(c, sa["out"], "arith-%d-%d" % (nodes, len(lits)))
    # larger hosts
    d = os.path.join(vf.WORK, "rewrite")
    progs, hosts = os.path.join(d, "progs.jsonl"), os.path.join(d, "hosts.ndjson")
    n = 1 if c.quick else 25
    with open(progs, "w") as f:
        for kind, count, *extra in [("typed", 50 * n, 2), ("corpus", 0), ("recursion", 10 * n, 4), ("deforder", 40 * n), ("groups", 120 * n), ("chains", 80 * n), ("bigint", 20 * n), ("nestgroup", 60 * n), ("nestpick", 0), ("groundindex2", 24 * n)]:
            f.write(vf.gv(["gen-programs", kind, c.seed, count] + list(extra)).stdout)
    open(hosts, "w").write(vf.gv(["parse-hosts", progs]).stdout)
    out = os.path.join(d, "hosts.out")
    s2 = vf.tlc("MC_RewriteHosts", "INIT Init\nNEXT Next\nINVARIANT Emit\nCHECK_DEADLOCK FALSE\n", out, workers=1, timeout=3000, env={"HOSTS": hosts})
    c.add_tlc(s2, "rewrites of recorded host programs computed by TLC")
    replay(c, out, "hosts")
    # probe: a 'rewrite' that is not meaning preserving must be reported
    rec = {"t": pc.SUM12, "rs": [{"rule": "probe", "t": {"k": "bin", "op": "sum", "a": pc.LIT1, "b": pc.LIT1}}]}
    src = os.path.join(d, "probe.txt")
    open(src, "w").write('<<"REWRITE", %s>>\n' % json.dumps(json.dumps(rec)))
    pout = os.path.join(d, "probe.json")
    vf.gv(["replay-rewrite", src, pout])
    c.probe("a planted non-preserving rewrite (1 + 2 -> 1 + 1)", json.load(open(pout))["mismatches"] >= 1)
    c.assumptions += ["function values are compared by kind only (a named subexpression reaches a closure already evaluated)", "runs cut by the step limit are not compared",
                      "naming a subexpression is only enabled for closed, division- and application-free arithmetic (total) subexpressions"]
    c.cov["exhaustive"] = True


def replay_file(path):
    print(json.dumps(json.load(open(path))["replay"])[:3000])
    return 0
