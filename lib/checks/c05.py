"""C05 - fully annotated well-typed programs are accepted; elaboration only fills holes."""
import json
import vf
from checks import pipecommon as pc


def run(c):
    vf.build_harness()
    size = 6 if c.quick else 7
    ops = ["sum", "quot", "lt"] if c.quick else ["quot", "lt"]
    c.cov["bounds"] = {"program_size": size, "operators": ops, "alias_chains": "1..3 through groups of 2..4 definitions in random order"}
    r, ev1 = pc.enumerate_programs(c, "C05", size, ops, "s%d" % size, every=300 if c.quick else 3000)
    if r is None:
        return
    _, ev2 = pc.enumerate_programs(c, "C05", 5 if c.quick else 6, ["sum", "lt"], "holes", holes=True, every=40 if c.quick else 200)
    n = 1 if c.quick else 20
    ev3 = pc.generated(c, "C05", [("corpus", 0), ("alias", 400 * n), ("typed", 400 * n, 3), ("dependent", 200 * n), ("typelevel", 0), ("groundindex", 300 * n), ("deforder", 200 * n), ("recursion", 40 * n, 8), ("punch", 200 * n), ("bigint", 40 * n), ("groups", 100 * n), ("lettypes", 0)])
    # crashes of the checker on generated programs: judge them here (a crash is 'not accepted')
    g = json.load(open(vf.WORK + "/pipe/C05-gen.json"))
    for m in g["mism"]:
        if m.get("prop") in ("crash", "timeout") and m.get("origin") in ("alias", "recursion", "bigint", "corpus", "typed"):
            c.violate("the checker crashes on a well-typed, annotated program: %s" % m.get("text"), dict(kind="pipeline-crash", text=m.get("text"), origin=m.get("origin"), what=m["what"]))
    allp = pc.validate(c, "C05", [ev1, ev2, ev3], "events")

    def mut(ev):
        if ev.get("accepted") and ev["elab"].get("k") == "bin":
            ev["elab"] = dict(ev["elab"], a=ev["elab"]["b"], b=ev["elab"]["a"])
            if ev["elab"]["a"] != ev["elab"]["b"]:
                return ev
    pc.probe(c, "C05", allp, mut, "operands of the recorded elaboration swapped")
    pc.probe_replay(c, "C05", {"t": {"k": "bin", "op": "sum", "a": {"k": "true"}, "b": pc.LIT1}, "holes": False,
                    "v": {"ty": "ok", "why": "", "tyT": {"k": "int"}, "dord": "ok", "out": {"r": "fuel"}}}, "prescribed verdict of true + 1 changed to well typed")
    c.assumptions += ["'well typed' = Infer of spec/GramTyping.tla returns ok with fuel to spare and the definition-order rule holds",
                      "generated alias-chain / recursion / big-operand families are well typed by construction; a crash of the checker on them counts as a rejection"]
    c.cov["exhaustive"] = True


def replay(path):
    print(json.dumps(json.load(open(path))["replay"])[:3000])
    return 0
