"""C05 - fully annotated well-typed programs are accepted; elaboration only fills holes."""
import json
import vf
from checks import pipecommon as pc


def run(c):
    vf.build_harness()
    size = 6 if c.quick else 7
    ops = ["sum", "quot", "lt"] if c.quick else ["quot", "lt"]
    c.cov["bounds"] = {"program_size": size, "operators": ops, "alias_chains": "1..3 through groups of 2..4 definitions in random order"}
    r, ev1 = pc.enumerate_programs(c, "C05", size, ops, "s%d" % size, every=300 if c.quick else 3000)
    if r is None:
        return
    _, ev2 = pc.enumerate_programs(c, "C05", 5 if c.quick else 6, ["sum", "lt"], "holes", holes=True, every=40 if c.quick else 200)
    n = 1 if c.quick else 20
    ev3 = pc.generated(c, "C05", [("corpus", 0), ("alias", 400 * n), ("typed", 400 * n, 3), ("dependent", 200 * n), ("typelevel", 0), ("groundindex", 300 * n), ("deforder", 200 * n), ("recursion", 40 * n, 8), ("punch", 200 * n), ("bigint", 40 * n), ("groups", 100 * n), ("lettypes", 0), ("deforder3", 0), ("groundindex2", 300 * n), ("nestgroup", 360 * n), ("typerec", 96 * n), ("nestpick", 0)])
    # crashes of the checker on generated programs: judge them here (a crash is 'not accepted')
    g = json.load(open(vf.WORK + "/pipe/C05-gen.json"))
    for m in g["mism"]:
        if m.get("prop") in ("crash", "timeout") and m.get("origin") in ("alias", "recursion", "bigint", "corpus", "typed"):
            c.violate("the checker crashes on a well-typed, annotated program: %s" % m.get("text"), dict(kind="pipeline-crash", text=m.get("text"), origin=m.get("origin"), what=m["what"]))
    allp = pc.validate(c, "C05", [ev1, ev2, ev3], "events")

    # ---- the elaborator itself (spec/GramElab.tla on top of GramUnifyAlg): TLC runs the specification's elaborator on the SOURCE
    # of every recorded program (holes as parsed) and compares verdict, elaborated term and reported type with the real
    # checker's.  "As coded" (holes copied by `open`) must agree everywhere; the intended design (holes kept) may differ only
    # where the hook saw `open` reach an unsolved hole (the recorded finding).  This is conformance of the specification beyond the
    # listed properties (programs with holes carry no obligation in C05): counted and reported, never a VIOLATION line.
    import os
    ep = os.path.join(vf.WORK, "pipe", "C05-elab.ndjson")
    with open(ep, "w") as o:
        k = 0
        for p in (ev2, ev3):
            if p and os.path.exists(p):
                for line in open(p):
                    k += 1
                    if '"stage":"parse"' in line:
                        continue        # rejected by the front end (definition order, scoping): not the elaborator's subject
                    if not c.quick or p == ev2 or k % 3 == 0:
                        o.write(line)
    te = vf.validate_trace("Trace_Elab", ep, "c05-elab", chunk_events=100, par=12, consts="CONSTANT CopyHoles = TRUE\n")
    c.add_trace(te, "Trace_Elab (elaborator as coded)")
    for rj in te["rejects"][:5]:
        vf.log("elaborator specification (as coded) differs from the checker: %s on %s" % (rj["what"][:120], ((rj["event"] or {}).get("text") or "")[:200]))
    td = vf.validate_trace("Trace_Elab", ep, "c05-elab-design", chunk_events=100, par=12, consts="CONSTANT CopyHoles = FALSE\n")
    c.add_trace(td, "Trace_Elab (intended design: holes kept by open)")
    unexplained = [rj for rj in td["rejects"] if not ((rj["event"] or {}).get("holes_opened", 0) or 0) > 0]
    for rj in unexplained[:5]:
        vf.log("intended design differs from the checker WITHOUT a copied hole: %s on %s" % (rj["what"][:120], ((rj["event"] or {}).get("text") or "")[:200]))
    c.cov["elaborator_specification"] = {"programs": te["events"], "as_coded_differs_from_checker": len(te["rejects"]), "design_differs_from_checker": len(td["rejects"]),
                                         "design_differences_without_a_copied_hole": len(unexplained)}

    def mut(ev):
        if ev.get("accepted") and ev["elab"].get("k") == "bin":
            ev["elab"] = dict(ev["elab"], a=ev["elab"]["b"], b=ev["elab"]["a"])
            if ev["elab"]["a"] != ev["elab"]["b"]:
                return ev
    pc.probe(c, "C05", allp, mut, "operands of the recorded elaboration swapped")
    pc.probe_replay(c, "C05", {"t": {"k": "bin", "op": "sum", "a": {"k": "true"}, "b": pc.LIT1}, "holes": False,
                    "v": {"ty": "ok", "why": "", "tyT": {"k": "int"}, "dord": "ok", "out": {"r": "fuel"}}}, "prescribed verdict of true + 1 changed to well typed")
    c.assumptions += ["'well typed' = Infer of spec/GramTyping.tla returns ok with fuel to spare and the definition-order rule holds",
                      "generated alias-chain / recursion / big-operand families are well typed by construction; a crash of the checker on them counts as a rejection"]
    c.cov["exhaustive"] = True


def replay(path):
    print(json.dumps(json.load(open(path))["replay"])[:3000])
    return 0
