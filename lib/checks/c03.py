"""C03 - the type checker never accepts an ill-typed program."""
import json
import vf
from checks import pipecommon as pc


def run(c):
    vf.build_harness()
    size = 6 if c.quick else 7
    ops = ["sum", "quot", "lt"] if c.quick else ["quot", "lt"]
    c.cov["bounds"] = {"program_size": size, "operators": ops, "hole_programs_size": 5 if c.quick else 6}
    r, ev1 = pc.enumerate_programs(c, "C03", size, ops, "s%d" % size, every=300 if c.quick else 3000)
    if r is None:
        return
    _, ev2 = pc.enumerate_programs(c, "C03", 5 if c.quick else 6, ["sum", "lt"], "holes", holes=True, every=25 if c.quick else 100)
    n = 1 if c.quick else 20
    ev3 = pc.generated(c, "C03", [("corpus", 0), ("perturb", 700 * n), ("junk", 300 * n), ("punch", 500 * n), ("hopunch", 0), ("typed", 200 * n, 3), ("dependent", 300 * n), ("typelevel", 0), ("crossop", 0), ("groundindex", 300 * n), ("alias", 450 * n), ("lettypes", 0), ("holeparam", 0), ("holescope", 800 * n), ("groundindex2", 300 * n), ("typerec", 0), ("nestgroup", 360 * n), ("nestpick", 0)])
    allp = pc.validate(c, "C03", [ev1, ev2, ev3], "events")

    def mut(ev):
        if ev.get("accepted") and ev["ty"].get("k") == "int":
            ev["ty"] = {"k": "bool"}
            return ev
    pc.probe(c, "C03", allp, mut, "reported type int replaced by bool")
    pc.probe_replay(c, "C03", {"t": pc.SUM12, "holes": False, "v": {"ty": "ill", "why": "probe", "tyT": {"k": "type"}, "dord": "ok", "out": {"r": "na"}}},
                    "prescribed verdict of 1 + 2 changed to ill typed")
    c.assumptions += ["spec/GramTyping.tla (Infer, conversion by weak-head normalisation, type : type) is the independent checker for explicitly typed terms",
                      "verdicts on which the specification's fuel runs out are inconclusive, never violations",
                      "unresolved holes in an elaboration are treated as unknowns convertible with anything (most permissive reading)"]
    c.cov["exhaustive"] = True


def replay(path):
    print(json.dumps(json.load(open(path))["replay"])[:3000])
    return 0
