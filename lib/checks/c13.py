"""C13 - output is a deterministic function of the input file.
G  multi-diagnostic inputs are generated from the specification's definition-order rule (groups with several simultaneous
   'not available in time' errors), plus files with several scoping errors, type errors and unexpected symbols, accepted
   programs and the examples.
B  the gram binary built from the working tree is launched k times per file and command (fresh process = fresh hash seed);
   TLC (Trace_Cli) requires identical exit status, stdout and stderr; parse() is also repeated inside one process."""
import json, os
import vf, cli


def multi_error_programs(seed, count):
    import random
    r = random.Random(seed)
    progs = []
    # one non-value definition that depends on several later non-value definitions: several diagnostics at once
    for n in range(2, 7):
        names = ["d%d" % i for i in range(n)]
        for rep in range(count):
            deps = names[1:]
            r.shuffle(deps)
            first = "%s = %s" % (names[0], " + ".join(deps))
            rest = ["%s = %d + %d" % (x, r.randint(0, 9), r.randint(0, 9)) for x in names[1:]]
            progs.append("; ".join([first] + rest + [names[0]]))
    # several offending definitions in one group (each with its own unavailable dependencies)
    for rep in range(count * 2):
        n = r.randint(3, 6)
        names = ["e%d" % i for i in range(n)]
        defs = []
        for i, x in enumerate(names):
            later = names[i + 1:]
            if later and r.random() < 0.7:
                deps = r.sample(later, r.randint(1, min(3, len(later))))
                defs.append("%s = %s + %d" % (x, " + ".join(deps), r.randint(0, 9)))
            else:
                defs.append("%s = %d + %d" % (x, r.randint(0, 9), r.randint(0, 9)))
        progs.append("; ".join(defs + [" + ".join(names[:2])]))
    # several names of one group clashing with enclosing binders; several unbound names at once
    for rep in range(count):
        outer = ["x", "y", "z", "w"][:r.randint(2, 4)]
        inner = outer[:]
        r.shuffle(inner)
        progs.append(" ".join("(%s : int) =>" % o for o in outer) + " (" + "; ".join("%s = %d" % (v, i) for i, v in enumerate(inner)) + "; " + " + ".join(inner) + ")")
        progs.append("(%s : int) => %s" % (outer[0], " + ".join("u%d" % r.randint(0, 5) for _ in range(r.randint(2, 5)))))
        progs.append("; ".join("%s = %d" % (v, i) for i, v in enumerate(inner)) + "; (" + "; ".join("%s = %d" % (v, i) for i, v in enumerate(reversed(inner))) + "; " + inner[0] + ")")
    # several SYNTAX errors in one file (the constructs with error recovery: conditionals missing a keyword, groups that are
    # not closed or miss an operand, annotated definitions without annotation), in definitions separated by line breaks / `;`
    broken = ["if true 1 else 2", "if false then 3 4", "if true then 1 else", "if 1 else 2", "(1 + )", "(2", "(3 4 =>)", "(x : ) => x", "{y : int => y",
              "(if true then (1 else 2)", "f (if true 1 else 2) (if false then 3 4)", "1 + (if true 1 else 2) * (if false then 3 4)"]
    for rep in range(count * 4):
        n = r.randint(2, 4)
        names = ["s%d" % i for i in range(n)]
        sep = r.choice(["\n", "; ", "\n\n"])
        progs.append(sep.join("%s = %s" % (x, r.choice(broken)) for x in names) + sep + " + ".join(names))
    # several parts of the program that cannot be inferred (unsolvable placeholders), several branches / operands of the wrong type,
    # several unexpected symbols of different kinds: whatever is reported for them, it is reported the same way in every launch
    progs.append("(x : _) => (y : _) => 1")
    progs.append("(x : _) => (y : _) => (z : _) => (w : _) => x")
    progs.append("f = (x : _) => 1; g = (y : _) => 2; h = (z : _) => (w : _) => 3; 4")
    progs.append("(a : _) => (b : _) => (c : _) => (d : _) => (e : _) => (f : _) => 0")
    progs.append("k = (p : _) => (q : _) => p\nm = (r : _) => (s : _) => (t : _) => s\n5")
    progs.append("x = 1 + true; y = if 3 then 4 else 5; z = (2 : int); w = true < false; x")
    progs.append("a = 1 $ 2 @ 3 ~ 4 ! 5 ? 6 ^ 7 & 8\nb = % | ` \\ '\na")
    progs.append("x = if true 1 else 2\ny = if false then 3 4\nx + y")
    progs.append("x : (if true int else bool) = (if false then 3 4); x")
    # nested: two groups each with several errors
    progs.append("x = y + z + w; y = 1 + 1; z = 1 + 1; w = 1 + 1; x")
    progs.append("a = (p = q + r + s; q = 1 + 1; r = 2 + 2; s = 3 + 3; p) + b + c; b = 1 + 1; c = 2 + 2; a")
    # several scoping errors, several type errors, several unexpected symbols
    progs += ["f a b c d e", "(x : int) => (x : int) => y z w", "(1 + true) + (false * 2) + (if 3 then 4 else true)", "x = 1 $ 2 @ 3 ! 4\nx",
              "g = (a : int) => a b c; h = (a : bool) => a + 1 + u; g h", "(true 1) (false 2) (3 4)"]
    return progs


def run(c):
    gram = vf.build_gram()
    vf.build_harness()
    # M: the definition-order traversal as a machine (GramDefOrder): with the variables visited in sorted order the list of
    # diagnostics is the same on every behaviour, and as a set it is the declarative rule's (all dependency graphs of 3 definitions)
    sm = vf.tlc_generate("GramDefOrder", 'CONSTANTS N = 3  Mode = "sorted"\nINIT Init\nNEXT Next\nINVARIANTS Deterministic RefinesRule\nCHECK_DEADLOCK FALSE\n', "deforder-3", timeout=1200, workers=8)
    c.add_tlc(sm, "definition-order traversal machine: diagnostics independent of scheduling, refines the declarative rule")
    if sm["violated"]:
        c.spec_violation(sm, "definition-order traversal")
        return
    d = os.path.join(vf.WORK, "cli13")
    os.makedirs(d, exist_ok=True)
    k = 12 if c.quick else 30
    progs = multi_error_programs(c.seed, 4 if c.quick else 60)
    gen = vf.gv(["gen-programs", "typed", c.seed, 20 if c.quick else 300, 2]).stdout + vf.gv(["gen-programs", "perturb", c.seed, 30 if c.quick else 400]).stdout
    progs += [json.loads(l)["text"] for l in gen.splitlines() if l.strip()]
    files = []
    for i, p in enumerate(progs):
        path = os.path.join(d, "p%04d.g" % i)
        open(path, "w").write(p + "\n")
        files.append(("p%04d" % i, path))
    exdir = os.path.join(vf.REPO, "examples")
    divergent = set()
    for name in sorted(os.listdir(exdir)):
        if name.endswith(".g") and name not in ("girard_paradox.g", "infinite_recursion.g"):
            files.append((name, os.path.join(exdir, name)))
    c.cov["bounds"] = {"files": len(files), "launches_per_file_and_command": k, "commands": ["check", "run"]}
    tr = os.path.join(d, "trace.ndjson")
    evs, _ = cli.run_files(files, ["check", "run"], k, tr, divergent)
    c.cov["replayed_cases"] += len(evs)
    tv = vf.validate_trace("Trace_Cli", tr, "c13", chunk_events=100000, par=1)
    c.add_trace(tv, "Trace_Cli")
    c.sample(evs[0])
    texts = dict((fid, open(p).read()) for fid, p in files)
    for rj in tv["rejects"]:
        if '"C13"' in rj["what"]:
            ev = rj["event"] or {}
            c.violate("launches differ: gram %s %s" % (ev.get("cmd"), ev.get("file")), {"kind": "cli-determinism", "what": rj["what"][:200], "file": ev.get("file"), "cmd": ev.get("cmd"), "text": texts.get(ev.get("file"), "")[:2000]})
    # in-process: parse() called repeatedly (every HashSet::new draws fresh keys)
    pj = os.path.join(d, "progs.jsonl")
    with open(pj, "w") as f:
        for p in progs:
            f.write(json.dumps({"text": p}) + "\n")
    out = os.path.join(d, "repeat.json")
    vf.gv(["repeat-parse", pj, 25, out])
    r = json.load(open(out))
    c.cov["in_process_repeated_parses"] = r["calls"]
    for m in r["first"]:
        c.violate("parse() returns its diagnostics in a different order on a repeated call: %s" % m["text"], dict(m, kind="parse-determinism"))
    # probe
    e2 = dict(evs[0], err="deadbeef")
    ptr = os.path.join(d, "probe.ndjson")
    open(ptr, "w").write(json.dumps(evs[0]) + "\n" + json.dumps(e2) + "\n")
    pv = vf.validate_trace("Trace_Cli", ptr, "c13-probe", par=1)
    c.probe("two launches with different stderr", any('"C13"' in x["what"] for x in pv["rejects"]))
    c.cov["states"] = max(c.cov["states"], 1)
    c.assumptions += ["a fresh process draws a fresh hash seed (std RandomState); %d launches per file" % k,
                      "the specification's contribution is the generator of multi-diagnostic inputs and the determinism predicate; the observations are process launches"]


def replay_file(path):
    print(json.dumps(json.load(open(path))["replay"])[:3000])
    return 0
