"""C11 - substitution and index shifting are capture-avoiding.
M  MC_Term: TLC checks the statement's laws and agreement with the named reference (GramNamed) on all terms <= S.
A  the same run emits, per term, the prescribed results of shift/open/free-variables; gv replay-term compares
   them with the real signed_shift / unsigned_shift / open / free_variables.
B  gv record-term logs the real functions on random large terms; Trace_Term (TLC) judges every event."""
import json, os
import vf

FORMERS = {"type", "lit", "var", "lam", "pi", "app", "bin", "neg", "if", "let1", "let2"}
ALLOPS = {"sum", "diff", "prod", "quot", "lt", "le", "eq", "gt", "ge"}
ALLLEAF = {"type", "int", "bool", "true", "false", "lit", "var"}


def cfg(maxsize, emit_from, formers, ops, lits, freevars=2, maxidx=4):
    return vf.cfg_consts(MaxSize=maxsize, EmitFrom=emit_from, FreeVars=freevars, MaxIdx=maxidx, Formers=formers, Ops=ops, Lits=lits) + \
        "INIT BInit\nNEXT BNext\nINVARIANTS InvLaws Emit\nCHECK_DEADLOCK FALSE\n"


def replay_file(c, st, name):
    out = os.path.join(vf.WORK, "c11", name + ".json")
    os.makedirs(os.path.dirname(out), exist_ok=True)
    vf.gv(["replay-term", st["out"], out])
    r = json.load(open(out))
    c.cov["replayed_cases"] += r["cases"]
    c.cov["traces_validated_against_impl"] += r["behaviours"]
    if r.get("sample"):
        c.sample(r["sample"])
    for m in r["first"]:
        c.violate("real %s differs from the specification's result" % m["fn"], dict(m, kind="replay-term"))
    return r


def run(c):
    vf.build_harness()
    S = 5 if c.quick else 6
    c.cov["bounds"] = {"max_term_size": S, "cutoffs": "0..2", "amounts": "-2..2", "indices": "0..1", "context_depth": 2,
                       "small_run": "every operator and every nullary constant at size <= 3"}
    # all operators / all leaves at small size, representative operators above
    runs = [("small-all", cfg(3, 1, FORMERS | ALLLEAF | {"let3"}, ALLOPS, {0, 1})),
            ("main", cfg(S, 1, FORMERS, {"sum", "lt"} if c.quick else {"quot", "ge"}, {1})),
            # multi-definition groups need 6 / 8 nodes: dedicated runs over a reduced vocabulary
            ("groups2", cfg(7 if c.quick else 8, 6, {"type", "var", "lam", "app", "let2"}, {"sum"}, {1})),
            ("groups3", cfg(8, 8, {"var", "let3"}, {"sum"}, {1}, freevars=1, maxidx=3) if c.quick else
                        cfg(9, 8, {"var", "type", "lam", "let3"}, {"sum"}, {1}, freevars=1, maxidx=3))]
    for name, cf in runs:
        st = vf.tlc_generate("MC_Term", cf, "c11-" + name, timeout=3000)
        c.add_tlc(st, "laws + named reference + generation (" + name + ")")
        if st["violated"]:
            c.spec_violation(st, "shift/open laws fail on the specification")
            return
        replay_file(c, st, name)
    # sensitivity probe (direction A): corrupt one prescribed value, the replay must notice
    probe_src = os.path.join(vf.WORK, "c11", "probe.txt")
    with open(runs and vf.tlc_generate("MC_Term", runs[0][1], "c11-small-all")["out"], errors="replace") as f:
        line = next(l for l in f if l.startswith('<<"REPLAY"'))
    rec = vf.parse_tlc_line(line, "REPLAY")
    rec["fv"][0]["vs"] = rec["fv"][0]["vs"] + [7]
    open(probe_src, "w").write('<<"REPLAY", %s>>\n' % json.dumps(json.dumps(rec)))
    pout = os.path.join(vf.WORK, "c11", "probe.json")
    vf.gv(["replay-term", probe_src, pout])
    c.probe("corrupted prescribed free-variable set", json.load(open(pout))["mismatches"] >= 1)
    # direction B
    n = 400 if c.quick else 6000
    tr = os.path.join(vf.WORK, "c11", "trace.ndjson")
    vf.gv(["record-term", c.seed, n, 300, tr])
    tv = vf.validate_trace("Trace_Term", tr, "c11", chunk_events=600, par=8)
    c.add_trace(tv, "Trace_Term")
    for rj in tv["rejects"]:
        c.violate("trace of the real shift/open rejected: " + rj["what"], {"kind": "trace-term", "what": rj["what"], "event": rj["event"]})
    # probe (direction B): corrupt one recorded event
    lines = open(tr).read().splitlines()
    ev = json.loads(lines[2])
    ev["vs"] = ev["vs"] + [99]
    ptr = os.path.join(vf.WORK, "c11", "probe.ndjson")
    open(ptr, "w").write("\n".join(lines[:2] + [json.dumps(ev)]) + "\n")
    pv = vf.validate_trace("Trace_Term", ptr, "c11-probe", par=1)
    c.probe("corrupted recorded event", any(r["line"] == 3 for r in pv["rejects"]))
    c.assumptions += ["the specification's Shift/Open/FV (spec/GramTerm.tla) and the named reference (spec/GramNamed.tla) state the intended meaning",
                      "terms are hole-free (the statement's scope)", "exhaustive only up to the stated size; random terms beyond"]
    c.cov["exhaustive"] = True


def replay(path):
    r = json.load(open(path))["replay"]
    print(json.dumps(r)[:2000])
    return 0
