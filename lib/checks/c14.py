"""C14 - gram handles every input without crashing and reports failure faithfully.
G  inputs come from the specification's generators: all texts of the lexer alphabets (C09), all 28^k token strings (C07),
   all programs <= S (pipeline), single-token mutations of grammar sentences, plus byte strings with invalid UTF-8 and
   random token soup.
A  library stages run in supervised worker processes: a panic, abort, stack overflow or time-out is an observation.  An
   abnormal ending is admissible only where the SPECIFICATION's checker/evaluator runs out of fuel on the parsed program
   (TLC decides: CrashEv of Trace_Pipeline).  Rejections must carry >= 1 diagnostic.
B  the gram binary: every observation (exit status, stdout, stderr) is judged by TLC against the outcome contract (Trace_Cli)."""
import json, os, random, itertools
import vf, cli, grammar
from checks import pegcommon
from checks import pipecommon as pc, lexcommon as lc, c07

LEX = {"ASTERISK": "*", "BOOLEAN": "bool", "COLON": ":", "DOUBLE_EQUALS": "==", "ELSE": "else", "EQUALS": "=", "FALSE": "false", "GREATER_THAN": ">",
       "GREATER_THAN_OR_EQUAL": ">=", "IDENTIFIER": "x", "IF": "if", "INTEGER": "int", "INTEGER_LITERAL": "7", "LEFT_CURLY": "{", "LEFT_PAREN": "(",
       "LESS_THAN": "<", "LESS_THAN_OR_EQUAL": "<=", "MINUS": "-", "PLUS": "+", "RIGHT_CURLY": "}", "RIGHT_PAREN": ")", "SLASH": "/", "TERMINATOR": ";",
       "THEN": "then", "THICK_ARROW": "=>", "THIN_ARROW": "->", "TRUE": "true", "TYPE": "type"}


def mutated_sentences(sent_out, r, count):
    kinds = sorted(LEX)
    lines = []
    with open(sent_out, errors="replace") as f:
        for line in f:
            if line.startswith('<<"SENT"') and r.random() < 0.15:
                lines.append(line)
            if len(lines) >= count:
                break
    texts = []
    for line in lines:
        y = list(vf.parse_tlc_line(line, "SENT")["y"])
        op = r.randint(0, 2)
        i = r.randrange(len(y))
        if op == 0 and len(y) > 1:
            del y[i]
        elif op == 1:
            y.insert(i, r.choice(kinds))
        else:
            y[i] = r.choice(kinds)
        names = ["x", "y", "x", "f"]
        texts.append(" ".join(r.choice(names) if k == "IDENTIFIER" else str(r.randint(0, 3)) if k == "INTEGER_LITERAL" else LEX[k] for k in y))
    return texts


def run(c):
    vf.build_harness()
    grammar.generate()
    r = random.Random(c.seed)
    d = os.path.join(vf.WORK, "c14")
    os.makedirs(d, exist_ok=True)
    q = c.quick
    # ---- tokenizer: all texts over the error-heavy alphabets (panics are mismatches of class 'panic')
    for alpha in ("AErrors", "ASymbols", "AClusters"):
        st = vf.tlc_generate("MC_Lexer", lc.lexer_cfg(alpha, 5 if q else 6, lc.ALPHABETS[alpha]), "lex-%s-%d" % (alpha, 5 if q else 6), timeout=3000)
        c.add_tlc(st, "all texts over %s; generation" % alpha)
        rr = lc.replay(c, st, "c14-" + alpha, sig=True)
        for m in rr["first"]:
            if "panic" in m["got"]:
                c.violate("tokenize panicked on %r" % m["text"], {"kind": "tokenize-panic", "text": m["text"], "panic": m["got"]["panic"]})
    # ---- parser: every token string up to N (shared with C07): panics
    n = 4 if q else 5
    st = vf.tlc_generate("MC_Grammar", c07.gram_cfg(n), "grammar-%d" % n, timeout=6000, workers=14, heap="20g")
    c.add_tlc(st, "sentences <= %d tokens (reference set for all 28^k token strings); generation" % n)
    out = os.path.join(d, "strings.json")
    vf.gv(["replay-parse", st["out"], n, out, "reject"], timeout=3000)
    rp = json.load(open(out))
    c.cov["replayed_cases"] += rp["strings"]
    c.cov["token_strings"] = rp["strings"]
    for m in rp["panics"]:
        c.violate("parse panicked on token string %s" % m["text"], {"kind": "parse-panic", "text": m["text"], "panic": m["panic"]})
    for m in rp["first"]:
        if "panic" in m:
            c.violate("parse panicked on sentence %s" % m["text"], {"kind": "parse-panic", "text": m["text"], "panic": m["panic"]})
    # ---- whole pipeline on all programs <= S: crashes / time-outs against the specification's fuel verdict
    size = 5 if q else 6
    pc.enumerate_programs(c, "C14", size, ["sum", "quot", "lt"], "s%d" % size, every=0)
    # ---- mutated sentences, token soup, generated programs through the library pipeline
    sent5 = vf.tlc_generate("MC_Grammar", c07.gram_cfg(5), "grammar-5", timeout=6000, workers=14, heap="20g")
    texts = mutated_sentences(sent5["out"], r, 3000 if q else 40000)
    lex = list(LEX.values()) + ["x", "y", "_", "\n", "# c\n", "12345678901234567890"]
    texts += [" ".join(r.choice(lex) for _ in range(r.randint(1, 12))) for _ in range(1500 if q else 20000)]
    progs = os.path.join(d, "texts.jsonl")
    with open(progs, "w") as f:
        for t in texts:
            f.write(json.dumps({"text": t, "origin": "mutation"}) + "\n")
        for kind, count, *extra in [("tokmut", 0), ("perturb", 300 if q else 4000), ("punch", 200 if q else 3000), ("deforder", 200 if q else 3000), ("corpus", 0)]:
            f.write(vf.gv(["gen-programs", kind, c.seed, count] + list(extra)).stdout)
    # the same programs laid out over several lines with wide (multi-byte) whitespace as indentation: diagnostics that span
    # lines, continuation lines that begin with a 2- or 3-byte blank
    wide = []
    for line in open(progs):
        if r.random() < (0.25 if q else 0.5):
            t = json.loads(line)["text"]
            w = "".join(r.choice([" ", " ", "\n\u3000", "\u00a0", "\n\u2003 ", "\n  "]) if ch == " " else ch for ch in t)
            wide.append(json.dumps({"text": w, "origin": "wide-layout"}) + "\n")
    open(progs, "a").writelines(wide)
    out, evp = os.path.join(d, "lib.json"), os.path.join(d, "lib.ndjson")
    vf.gv(["record-pipeline", progs, out, evp, 200, 0], timeout=3000)
    rl = json.load(open(out))
    c.cov["library_pipeline"] = {k: rl[k] for k in rl if k != "mism"}
    c.cov["replayed_cases"] += rl["cases"]
    crash_events = []
    for m in rl["mism"]:
        if m.get("prop") == "C14":
            c.violate("panic in the pipeline on %r" % m.get("text"), {"kind": "pipeline-panic", "text": m.get("text"), "msg": m.get("msg")})
        elif m.get("prop") in ("crash", "timeout"):
            crash_events.append((m["text"], m["what"]))
    # rejected programs must carry a diagnostic; accepted ones are judged by the other checks
    ev_all = os.path.join(d, "events.ndjson")
    with open(ev_all, "w") as o:
        for line in open(evp):
            if '"accepted":false' in line:
                o.write(line)
        # abnormal endings: parse the text again (parsing did not crash), let TLC decide divergence on the parsed term
        if crash_events:
            hp = os.path.join(d, "crash-texts.jsonl")
            with open(hp, "w") as f:
                for t, w in crash_events:
                    f.write(json.dumps({"text": t}) + "\n")
            hosts = [json.loads(l) for l in vf.gv(["parse-hosts", hp]).stdout.splitlines() if l.strip()]
            if len(hosts) != len(crash_events):
                # a text whose parse is not reproducible as a hole-free term: judged conservatively below
                pass
            for h, (t, w) in zip(hosts, crash_events):
                o.write(json.dumps({"ev": "crash", "src": h["t"], "what": w, "text": t}) + "\n")
    if os.path.getsize(ev_all) > 0:
        tv = vf.validate_trace("Trace_Pipeline", ev_all, "c14", chunk_events=400, par=10)
        c.add_trace(tv, "Trace_Pipeline (rejections carry diagnostics; abnormal endings only on divergent programs)")
        for rj in tv["rejects"]:
            if '"C14"' in rj["what"]:
                ev = rj["event"] or {}
                c.violate("pipeline: " + rj["what"][:200], {"kind": "trace-pipeline", "tag": "C14", "what": rj["what"][:300], "text": ev.get("text")})
    c.cov["abnormal_endings_sent_to_tlc"] = len(crash_events)
    # ---- the command line as a whole (spec/GramCli.tla): laws of the specification, then every form of invocation on files of
    # every class against it.  Rejections tagged C14 are violations of this property (outcome contract on file contents); the
    # others (usage errors, `gram P` = `gram run P`, missing files) are conformance of the specification beyond the listed
    # properties: counted in the evidence, reported on stderr, never a VIOLATION line.
    sc = vf.tlc_generate("MC_Cli", "INIT Init\nNEXT Next\nINVARIANT Laws\nCHECK_DEADLOCK FALSE\n", "gramcli", timeout=600, workers=1)
    c.add_tlc(sc, "command-line specification: `gram P` = `gram run P`, check and run reject alike, exit codes, streams exclusive")
    if sc["violated"]:
        c.spec_violation(sc, "command-line specification")
        return
    atr = os.path.join(d, "cliargs.ndjson")
    aevs = cli.run_arg_forms(os.path.join(d, "args"), atr)
    atv = vf.validate_trace("Trace_CliArgs", atr, "c14-args", par=1)
    c.add_trace(atv, "Trace_CliArgs")
    c.cov["replayed_cases"] += len(aevs)
    beyond = 0
    for rj in atv["rejects"]:
        ev = rj["event"] or {}
        if '"C14"' in rj["what"]:
            c.violate("command line: " + rj["what"][:220], {"kind": "cli-args", "what": rj["what"][:300], "argv": ev.get("argv")})
        else:
            beyond += 1
            vf.log("command-line conformance beyond the listed properties: %s (%s)" % (rj["what"][:200], ev.get("argv")))
    c.cov["command_line_forms"] = {"launches": len(aevs), "rejections_beyond_listed_properties": beyond}
    pe = dict(next(e for e in aevs if e["form"] == "check" and e["key"] == "value"), exit=1)
    pp = os.path.join(d, "cliargs-probe.ndjson")
    open(pp, "w").write(json.dumps(pe) + "\n")
    ppv = vf.validate_trace("Trace_CliArgs", pp, "c14-args-probe", par=1)
    c.probe("recorded exit status of an accepted `gram check` changed to 1", any('"C14"' in r["what"] for r in ppv["rejects"]))
    # ---- the binary: byte strings (invalid UTF-8 included), mutated sentences, token soup
    alphabet = [b"x", b"1", b" ", b"\n", b"(", b")", b"=", b";", b"#", b"\xc3", b"\xa9", b"\xff", b"\xe2", b"\x80", b"\xf0"]
    files = []
    k = 0
    for length in range(0, (3 if q else 4)):
        for combo in itertools.product(alphabet, repeat=length):
            if length == 3 and q and r.random() > 0.35:
                continue
            if length == 3 and not q and False:
                continue
            p = os.path.join(d, "b%05d.g" % k)
            open(p, "wb").write(b"".join(combo))
            files.append(("b%05d" % k, p))
            k += 1
    for i, t in enumerate(r.sample(texts, 400 if q else 6000)):
        p = os.path.join(d, "t%05d.g" % i)
        open(p, "w").write(t + "\n")
        files.append(("t%05d" % i, p))
    tr = os.path.join(d, "cli.ndjson")
    evs, raw = cli.run_files(files, ["check"], 1, tr)
    evs2, _ = cli.run_files(files[-(200 if q else 3000):], ["run"], 1, tr + ".run")
    open(tr, "a").write(open(tr + ".run").read())
    c.cov["cli_launches"] = len(evs) + len(evs2)
    c.cov["replayed_cases"] += len(evs) + len(evs2)
    tv = vf.validate_trace("Trace_Cli", tr, "c14-cli", chunk_events=100000, par=1)
    c.add_trace(tv, "Trace_Cli (outcome contract)")
    paths = dict(files)
    for rj in tv["rejects"]:
        if '"C14"' in rj["what"]:
            ev = rj["event"] or {}
            content = open(paths[ev["file"]], "rb").read()[:300] if ev.get("file") in paths else b""
            c.violate("gram %s: %s" % (ev.get("cmd"), rj["what"][:160]), {"kind": "cli-contract", "what": rj["what"][:300], "cmd": ev.get("cmd"), "content": repr(content)})
    c.sample(evs[len(evs) // 2])
    # ---- the parser function by function against its specification: a crash, or a rejection without a diagnostic, is this property's
    pegcommon.run(c, "C14", 400 if c.quick else 4000)
    # probes
    e2 = dict(evs[0], exit=101, outlen=0, errlen=50, nerr=0)
    ptr = os.path.join(d, "probe.ndjson")
    open(ptr, "w").write(json.dumps(e2) + "\n")
    pv = vf.validate_trace("Trace_Cli", ptr, "c14-probe", par=1)
    c.probe("a launch that exits with status 101 (panic)", any('"C14"' in x["what"] for x in pv["rejects"]))
    open(ptr, "w").write(json.dumps({"ev": "crash", "src": pc.SUM12, "what": "probe", "text": "1 + 2"}) + "\n")
    pv = vf.validate_trace("Trace_Pipeline", ptr, "c14-probe2", par=1)
    c.probe("a crash reported on the terminating program 1 + 2", any('"C14"' in x["what"] for x in pv["rejects"]))
    c.assumptions += ["the exit-status clause is checked for `gram check`; for `gram run` the run-time message 'Evaluation of ... is stuck!' (no [Error] tag, pinned by unit tests) counts as the diagnostic",
                      "divergence 'written in the program itself' = the specification's checker or evaluator exhausts its fuel on the parsed program",
                      "the specification's contribution is the input generators, the fuel verdict and the outcome contract; panics and launches are observed by the harness"]
    c.cov["exhaustive"] = True


def replay_file(path):
    print(json.dumps(json.load(open(path))["replay"])[:3000])
    return 0
