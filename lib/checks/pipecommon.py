"""Shared by C01 - C05: the program enumeration (TLC), its replay through the real pipeline, generated program
families, and TLC trace validation of pipeline events.  Each check reports only what is tagged with its own id."""
import json, os, subprocess
import vf

FORMERS = {"type", "int", "bool", "true", "false", "lit", "var", "lam", "pi", "app", "bin", "neg", "if", "let1", "let2"}


def prog_cfg(size, ops, holes=False, formers=None, lits=(0, 1)):
    f = set(formers or FORMERS)
    if holes:
        f.add("hole")
    return vf.cfg_consts(MaxSize=size, FreeVars=0, MaxIdx=3, RunFuel=60, TyFuel=400, EmitHoles=holes, Formers=f, Ops=set(ops), Lits=set(lits)) + \
        "INIT BInit\nNEXT BNext\nINVARIANTS Progress Preservation SemAgree Emit\nCHECK_DEADLOCK FALSE\n"


INV_PROP = {"Progress": "C01", "Preservation": "C04", "SemAgree": "C02"}


def enumerate_programs(c, pid, size, ops, name, holes=False, formers=None, every=300):
    """TLC: design-level theorems + generation; then replay through the real pipeline. Returns (result, events_path)"""
    st = vf.tlc_generate("MC_Programs", prog_cfg(size, ops, holes, formers), "prog-%s" % name, timeout=6000, workers=14)
    c.add_tlc(st, "Progress / Preservation / SemAgree on all programs <= %d nodes (%s); generation" % (size, name))
    if st["violated"]:
        c.spec_violation(st, "design-level theorem of the specification")
        return None, None
    d = os.path.join(vf.WORK, "pipe")
    os.makedirs(d, exist_ok=True)
    out = os.path.join(d, "%s-%s.json" % (pid, name))
    evp = os.path.join(d, "%s-%s.ndjson" % (pid, name))
    vf.gv(["replay-pipeline", st["out"], out, evp, every, 60], timeout=3000)
    r = json.load(open(out))
    c.cov["replayed_cases"] += r["cases"]
    c.cov["traces_validated_against_impl"] += r["cases"]
    c.cov.setdefault("pipeline", {})[name] = {k: r[k] for k in r if k != "mism"}
    report_mismatches(c, pid, r["mism"])
    first = vf.first_tag(st["out"], "PROG", 1, skip=st["distinct"] // 3)
    if first:
        c.sample({"program": first[0]["t"], "prescribed": first[0].get("v")})
    return r, evp


def report_mismatches(c, pid, mism):
    for m in mism:
        prop = m.get("prop")
        v = m.get("v") or {}
        if prop in ("crash", "timeout"):
            # abnormal ending: admissible only where the specification's own checker runs out of fuel (divergence
            # written in the program)
            divergent = v.get("ty") == "fuel" if v else None
            if pid == "C14" and divergent is not True:
                c.violate("abnormal ending of the pipeline: %s on %s" % (m["what"], m.get("text")), dict(kind="pipeline-crash", text=m.get("text"), what=m["what"], spec=v.get("ty")))
            if pid == "C05" and v.get("ty") == "ok" and v.get("dord") == "ok":
                c.violate("well-typed fully annotated program makes the checker crash: %s" % m.get("text"), dict(kind="pipeline-crash", text=m.get("text"), what=m["what"]))
            if divergent:
                c.cov["inconclusive"] += 1
            continue
        if prop == pid:
            d = m.get("detail") or {}
            c.violate("%s: %s" % (m["what"], m.get("text")), dict(kind="replay-pipeline", tag=prop, what=m["what"], text=m.get("text"),
                                                                   holes_opened=(d.get("holes_opened", 0) or 0) > 0, detail=d))


def generated(c, pid, kinds, steps_every=0, fuel=400):
    """programs from the harness generators -> events"""
    d = os.path.join(vf.WORK, "pipe")
    os.makedirs(d, exist_ok=True)
    progs = os.path.join(d, "%s-gen.jsonl" % pid)
    with open(progs, "w") as f:
        for kind, count, *extra in kinds:
            r = vf.gv(["gen-programs", kind, c.seed, count] + list(extra))
            f.write(r.stdout)
    out = os.path.join(d, "%s-gen.json" % pid)
    evp = os.path.join(d, "%s-gen.ndjson" % pid)
    vf.gv(["record-pipeline", progs, out, evp, fuel, steps_every], timeout=3000)
    r = json.load(open(out))
    c.cov.setdefault("pipeline", {})["generated"] = {k: r[k] for k in r if k != "mism"}
    c.cov["pipeline"]["generated"]["families"] = {k[0]: k[1] for k in kinds}
    for m in r["mism"]:
        if m.get("prop") in ("crash", "timeout") and pid in ("C14", "C05"):
            # without a prescribed verdict a crash is judged by C14's own machinery; here only counted
            c.cov["inconclusive"] += 1
        elif m.get("prop") == "C14" and pid == "C14":
            c.violate("panic in the pipeline: %s" % m.get("text"), dict(kind="pipeline-panic", text=m.get("text"), msg=m.get("msg")))
    return evp


def validate(c, pid, event_files, name, chunk=150):
    """TLC judges every event; only rejections tagged with this property count"""
    d = os.path.join(vf.WORK, "pipe")
    allp = os.path.join(d, "%s-%s-all.ndjson" % (pid, name))
    with open(allp, "w") as o:
        for p in event_files:
            if p and os.path.exists(p):
                for line in open(p):
                    # rejected programs that contain holes carry no obligation (C05 speaks about annotated programs)
                    if '"origin":"hopunch"' in line and '"accepted":false' in line:
                        continue
                    o.write(line)
    if os.path.getsize(allp) == 0:
        return None
    tv = vf.validate_trace("Trace_Pipeline", allp, "%s-%s" % (pid, name), chunk_events=chunk, par=10)
    c.add_trace(tv, "Trace_Pipeline (%s)" % name)
    other = {}
    for rj in tv["rejects"]:
        what = rj["what"]
        tag = what.split('"')[1] if '"' in what else "?"
        ev = rj["event"] or {}
        if tag == pid:
            c.violate("pipeline event rejected: %s on %s" % (what[:160], (ev.get("text") or "")[:200]),
                      dict(kind="trace-pipeline", tag=tag, what=what[:400], text=ev.get("text"), origin=ev.get("origin"),
                           holes_opened=(ev.get("holes_opened", 0) or 0) > 0, recheck=ev.get("recheck", "na"), gen=ev.get("gen")))
        else:
            other[tag] = other.get(tag, 0) + 1
    c.cov.setdefault("rejections_owned_by_other_checks", {}).update(other)
    return allp


def probe(c, pid, events_path, mutate, name):
    """sensitivity probe for direction B: corrupt one recorded field, TLC must reject it under this property"""
    lines = [l for l in open(events_path) if l.strip()]
    for l in lines:
        ev = json.loads(l)
        ev2 = mutate(ev)
        if ev2 is None:
            continue
        p = os.path.join(vf.WORK, "pipe", "%s-probe.ndjson" % pid)
        open(p, "w").write(json.dumps(ev2) + "\n")
        pv = vf.validate_trace("Trace_Pipeline", p, "%s-probe" % pid, par=1)
        hit = any(('"%s"' % pid) in r["what"] for r in pv["rejects"])
        c.probe(name, hit)
        return
    c.probe(name + " (no suitable event)", False)


def probe_replay(c, pid, corrupt, name):
    """sensitivity probe for direction A: a PROG line with a corrupted prescribed verdict must be reported"""
    d = os.path.join(vf.WORK, "pipe")
    src = os.path.join(d, "%s-probeA.txt" % pid)
    open(src, "w").write('<<"PROG", %s>>\n' % json.dumps(json.dumps(corrupt)))
    out = os.path.join(d, "%s-probeA.json" % pid)
    vf.gv(["replay-pipeline", src, out, os.path.join(d, "%s-probeA.ndjson" % pid), 0, 60])
    r = json.load(open(out))
    c.probe(name, any(m.get("prop") == pid for m in r["mism"]))


LIT1 = {"k": "lit", "v": {"s": 1, "m": [1]}}
LIT2 = {"k": "lit", "v": {"s": 1, "m": [2]}}
SUM12 = {"k": "bin", "op": "sum", "a": LIT1, "b": LIT2}
