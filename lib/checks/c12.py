"""C12 - unification succeeds only with a consistent, well-scoped solution.
G  MC_Punch: (pattern, instance) pairs from every well-typed program <= S: one hole at every position with every shift
   0..depth, two holes (distinct, or the same hole twice), both sides punched, occurs-check configurations, reflexive and
   reduct pairs.
B  each pair is built as real terms (one Rc cell per hole identity), unify is called in both argument orders in supervised
   workers; the event (terms before, result, contents of every cell after) is judged by TLC with Acyclic / ScopeSafe /
   Consistent of GramUnify -- never by equality with a model of the algorithm."""
import json, os, re
import vf
from checks import pipecommon as pc


def cfg(size):
    return vf.cfg_consts(MaxSize=size, FreeVars=0, MaxIdx=3, TyFuel=400, Formers={"type", "int", "bool", "true", "lit", "var", "lam", "pi", "app", "bin", "neg", "if", "let1"},
                         Ops={"sum", "lt"}, Lits={1}) + "INIT BInit\nNEXT BNext\nINVARIANTS Emit\nCHECK_DEADLOCK FALSE\n"


def alg_cfg(size, copy, invs):
    return vf.cfg_consts(MaxSize=size, FreeVars=0, MaxIdx=3, TyFuel=400, CopyHoles=copy, Formers={"type", "int", "bool", "true", "lit", "var", "lam", "pi", "app", "bin", "neg", "if", "let1"},
                         Ops={"sum", "lt"}, Lits={1}) + "INIT BInit\nNEXT BNext\nINVARIANTS %s\nCHECK_DEADLOCK FALSE\n" % invs


def run(c):
    vf.build_harness()
    size = 4 if c.quick else 5
    # M (design level): the unification ALGORITHM (GramUnifyAlg) against the predicates, on every punched pair.
    # Intended design (holes are kept when a term is opened): sound.  Code-faithful (OpenS copies unsolved holes): sound
    # wherever no hole was copied -- the copies themselves are the recorded finding.
    for copy, invs, name in ((False, "AlgSound AlgReflRed", "unifyalg-design-%d" % size), (True, "AlgSoundModuloCopies AlgReflRed", "unifyalg-code-%d" % size)):
        sa = vf.tlc_generate("MC_UnifyAlg", alg_cfg(size, copy, invs), name, timeout=6000, workers=14)
        c.add_tlc(sa, "unification algorithm vs declarative predicates (%s)" % ("intended design" if not copy else "as coded, modulo copied holes"))
        if sa["violated"]:
            c.spec_violation(sa, "the unification algorithm of the specification violates the predicates")
            return
    c.cov["bounds"] = {"host_program_size": size, "hole_shifts": "0..binder depth", "holes_per_pair": "1..2"}
    st = vf.tlc_generate("MC_Punch", cfg(size), "punch-%d" % size, timeout=6000, workers=14)
    c.add_tlc(st, "punched pairs from all well-typed programs <= %d nodes; generation" % size)
    d = os.path.join(vf.WORK, "unify")
    os.makedirs(d, exist_ok=True)
    tr, summ = os.path.join(d, "trace.ndjson"), os.path.join(d, "summary.json")
    vf.gv(["record-unify", st["out"], tr, summ], timeout=3000)
    s = json.load(open(summ))
    c.cov["unify"] = {k: s[k] for k in s if k != "crashed"}
    c.cov["inconclusive"] += s["crashes"]
    c.cov["replayed_cases"] += s["calls"]
    tv = vf.validate_trace("Trace_Unify", tr, "c12", chunk_events=700, par=10)
    c.add_trace(tv, "Trace_Unify")
    lines = open(tr).read().splitlines()
    c.sample(json.loads(lines[len(lines) // 2]))
    other = {}
    for rj in tv["rejects"]:
        what = rj["what"]
        tag = what.split('"')[1] if '"' in what else "?"
        ev = rj["event"] or {}
        if tag == "C12":
            c.violate("unify event rejected: " + what[:200], {"kind": "trace-unify", "tag": tag, "what": what[:300], "pair_kind": ev.get("kind"), "a": ev.get("a"), "b": ev.get("b"),
                      "store": ev.get("store"), "holes_opened": (ev.get("holes_opened") or 0) > 0, "modulo_unsolved": bool(re.search(r'"modulo_unsolved", TRUE', what))})
        else:
            other[tag] = other.get(tag, 0) + 1
    c.cov["rejections_owned_by_other_checks"] = other
    # probe: a recorded success whose store is emptied
    ev = json.loads(next(l for l in lines if '"res":true' in l and '"kind":"punch1"' in l and '"k":"none"' not in l.split('"store":')[1]))
    ev["store"] = [{"k": "lit", "v": {"s": 1, "m": [77]}} for _ in ev["store"]]
    ptr = os.path.join(d, "probe.ndjson")
    open(ptr, "w").write(json.dumps(ev) + "\n")
    pv = vf.validate_trace("Trace_Unify", ptr, "c12-probe", par=1)
    c.probe("recorded solution replaced by an unrelated literal", any('"C12"' in r["what"] for r in pv["rejects"]))
    c.assumptions += ["definitional equality = Conv of spec/GramNorm.tla; hosts have no divergent definitions, so conversion terminates",
                      "a crash / timeout of unify on a pair is counted as inconclusive here (C14 owns crashes)"]
    c.cov["exhaustive"] = True


def replay_file(path):
    print(json.dumps(json.load(open(path))["replay"])[:3000])
    return 0
