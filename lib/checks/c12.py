"""C12 - unification succeeds only with a consistent, well-scoped solution.
G  MC_Punch: (pattern, instance) pairs from every well-typed program <= S: one hole at every position with every shift
   0..depth, two holes (distinct, or the same hole twice), both sides punched, occurs-check configurations, reflexive and
   reduct pairs.
B  each pair is built as real terms (one Rc cell per hole identity), unify is called in both argument orders in supervised
   workers; the event (terms before, result, contents of every cell after) is judged by TLC with Acyclic / ScopeSafe /
   Consistent of GramUnify -- never by equality with a model of the algorithm."""
import json, os, re
import vf
from checks import pipecommon as pc


def cfg(size, skel=0):
    formers = {"lit", "var", "app", "bin"} if skel == 3 else {"type", "int", "bool", "true", "lit", "var", "lam", "pi", "app", "bin", "neg", "if", "let1"}
    return vf.cfg_consts(MaxSize=size, Skel=skel, FreeVars=0, MaxIdx=3, TyFuel=400, Formers=formers,
                         Ops={"sum", "lt"}, Lits={1}) + "INIT SInit\nNEXT BNext\nINVARIANTS Emit Emit2\nCHECK_DEADLOCK FALSE\n"


def has_recursion(t):
    """some definition group of the JSON term has a dependency cycle"""
    def refs(x, depth, n, acc):
        if isinstance(x, dict):
            k = x.get("k")
            if k == "var":
                if depth <= x["i"] < depth + n:
                    acc.add(n - 1 - (x["i"] - depth))
            elif k in ("lam", "pi"):
                refs(x["a"], depth, n, acc)
                refs(x["b"], depth + 1, n, acc)
            elif k == "let":
                m = len(x["defs"])
                for dd in x["defs"]:
                    refs(dd["ann"], depth + m, n, acc)
                    refs(dd["def"], depth + m, n, acc)
                refs(x["b"], depth + m, n, acc)
            else:
                for key, v in x.items():
                    if key not in ("k", "n", "v", "op", "imp"):
                        refs(v, depth, n, acc)
    def walk(x):
        if isinstance(x, dict):
            if x.get("k") == "let":
                m = len(x["defs"])
                g = []
                for dd in x["defs"]:
                    acc = set()
                    refs(dd["def"], 0, m, acc)
                    refs(dd["ann"], 0, m, acc)
                    g.append(acc)
                # cycle detection
                state = [0] * m
                def dfs(j):
                    state[j] = 1
                    for k2 in g[j]:
                        if state[k2] == 1 or (state[k2] == 0 and dfs(k2)):
                            return True
                    state[j] = 2
                    return False
                if any(state[j] == 0 and dfs(j) for j in range(m)):
                    return True
            return any(walk(v) for v in x.values())
        if isinstance(x, list):
            return any(walk(v) for v in x)
        return False
    return walk(t)


def alg_cfg(size, copy, invs):
    return vf.cfg_consts(MaxSize=size, FreeVars=0, MaxIdx=3, TyFuel=400, CopyHoles=copy, Formers={"type", "int", "bool", "true", "lit", "var", "lam", "pi", "app", "bin", "neg", "if", "let1"},
                         Ops={"sum", "lt"}, Lits={1}) + "INIT BInit\nNEXT BNext\nINVARIANTS %s\nCHECK_DEADLOCK FALSE\n" % invs


def run(c):
    vf.build_harness()
    size = 4 if c.quick else 5
    # M (design level): the unification ALGORITHM (GramUnifyAlg) against the predicates, on every punched pair.
    # Intended design (holes are kept when a term is opened): sound.  Code-faithful (OpenS copies unsolved holes): sound
    # wherever no hole was copied -- the copies themselves are the recorded finding.
    for copy, invs, name in ((False, "AlgSound AlgReflRed", "unifyalg-design-%d" % size), (True, "AlgSoundModuloCopies AlgReflRed", "unifyalg-code-%d" % size)):
        sa = vf.tlc_generate("MC_UnifyAlg", alg_cfg(size, copy, invs), name, timeout=6000, workers=14)
        c.add_tlc(sa, "unification algorithm vs declarative predicates (%s)" % ("intended design" if not copy else "as coded, modulo copied holes"))
        if sa["violated"]:
            c.spec_violation(sa, "the unification algorithm of the specification violates the predicates")
            return
    c.cov["bounds"] = {"host_program_size": size, "hole_shifts": "0..binder depth", "holes_per_pair": "1..2"}
    d = os.path.join(vf.WORK, "unify")
    os.makedirs(d, exist_ok=True)
    tr, summ = os.path.join(d, "trace.ndjson"), os.path.join(d, "summary.json")
    open(tr, "w").close()
    # closed hosts, and hosts below one / two binders (bodies that mention variables bound outside the punched region)
    for skel, total, what in ((0, size, "all well-typed programs <= %d nodes" % size), (1, size + 2, "(x : type) => body, body <= %d nodes" % size),
                              (2, size + 2, "(x : type) => (y : type) => body, body <= %d nodes" % (size - 2)),
                              (3, 11, "(g : int -> int) => body over g, literals, application and +, body <= 7 nodes")):
        st = vf.tlc_generate("MC_Punch", cfg(total, skel), "punch-%d-%d" % (skel, total), timeout=6000, workers=14)
        c.add_tlc(st, "punched pairs from %s; generation" % what)
        trk = os.path.join(d, "trace-%d.ndjson" % skel)
        vf.gv(["record-unify", st["out"], trk, summ], timeout=3000, env={"GV_UNIFY_THIN": "8" if skel == 3 else "4"} if (c.quick and skel >= 1) else None)
        s = json.load(open(summ))
        c.cov["unify-skel%d" % skel] = {k: s[k] for k in s if k != "crashed"}
        c.cov["inconclusive"] += s["crashes"]
        c.cov["replayed_cases"] += s["calls"]
        open(tr, "a").write(open(trk).read())
    # the same pair unified twice (solved holes are read back at their shifts, below binders and local definitions)
    asz = 7 if c.quick else 8
    sa2 = vf.tlc_generate("MC_Punch", vf.cfg_consts(MaxSize=asz, Skel=1, FreeVars=0, MaxIdx=3, TyFuel=400, Formers={"type", "int", "var", "lam", "let1", "app"}, Ops={"sum"}, Lits={1}) +
                          "INIT SInit\nNEXT BNext\nINVARIANTS Emit3\nCHECK_DEADLOCK FALSE\n", "punch-again-%d" % asz, timeout=3000, workers=10)
    c.add_tlc(sa2, "pairs unified twice, closed and on the bodies under the definitions context of the outer binders; hosts (x : type) => body over type / int / variables / functions / applications / local definitions; generation")
    tra = os.path.join(d, "trace-again.ndjson")
    vf.gv(["record-unify", sa2["out"], tra, summ], timeout=3000)
    s = json.load(open(summ))
    c.cov["unify-again"] = {k: s[k] for k in s if k != "crashed"}
    c.cov["replayed_cases"] += s["calls"]
    open(tr, "a").write(open(tra).read())
    # larger hosts recorded from the real parser: occurs-check, single-punch and two-step configurations computed by TLC
    progs, hosts = os.path.join(d, "progs.jsonl"), os.path.join(d, "hosts.ndjson")
    nn = 1 if c.quick else 10
    with open(progs, "w") as f:
        for kind, count, *extra in [("typed", 12 * nn, 2), ("corpus", 0), ("alias", 10 * nn)]:
            f.write(vf.gv(["gen-programs", kind, c.seed, count] + list(extra)).stdout)
    # hosts with a recursive definition are left out: with a hole for an argument gram's normaliser unfolds them for ever
    lines_h = [l for l in vf.gv(["parse-hosts", progs]).stdout.splitlines() if l.strip() and len(l) < 6000 and not has_recursion(json.loads(l)["t"])]
    open(hosts, "w").write("\n".join(lines_h) + "\n")
    ho = os.path.join(d, "hosts.out")
    sh = vf.tlc("MC_PunchHosts", "INIT Init\nNEXT Next\nINVARIANT Emit\nCHECK_DEADLOCK FALSE\n", ho, workers=1, timeout=3000, env={"HOSTS": hosts})
    c.add_tlc(sh, "pairs of %d recorded host terms computed by TLC" % len(lines_h))
    tr2, summ2 = os.path.join(d, "trace-hosts.ndjson"), os.path.join(d, "summary-hosts.json")
    vf.gv(["record-unify", ho, tr2, summ2], timeout=3000, env={"GV_UNIFY_CPU_S": "2", "GV_WORKER_MEM_GB": "3"})
    s2 = json.load(open(summ2))
    c.cov["unify_hosts"] = {k: s2[k] for k in s2 if k != "crashed"}
    c.cov["inconclusive"] += s2["crashes"]
    c.cov["replayed_cases"] += s2["calls"]
    open(tr, "a").write(open(tr2).read())
    tv = vf.validate_trace("Trace_Unify", tr, "c12", chunk_events=700, par=10)
    c.add_trace(tv, "Trace_Unify")
    # observation beyond the statement (counted, never a violation): after a SECOND call solved more holes, the first pair is
    # no longer equal -- a solution carried an unsolved hole out of a binder and the hole was later solved by the bound variable
    c.cov["two_call_chains_where_the_first_pair_stops_being_equal"] = tv.get("notes", 0)
    lines = open(tr).read().splitlines()
    c.sample(json.loads(lines[len(lines) // 2]))
    other = {}
    for rj in tv["rejects"]:
        what = rj["what"]
        tag = what.split('"')[1] if '"' in what else "?"
        ev = rj["event"] or {}
        if tag == "C12":
            c.violate("unify event rejected: " + what[:200], {"kind": "trace-unify", "tag": tag, "what": what[:300], "pair_kind": ev.get("kind"), "a": ev.get("a"), "b": ev.get("b"),
                      "store": ev.get("store"), "holes_opened": (ev.get("holes_opened") or 0) > 0, "modulo_unsolved": bool(re.search(r'"modulo_unsolved", TRUE', what))})
        else:
            other[tag] = other.get(tag, 0) + 1
    c.cov["rejections_owned_by_other_checks"] = other
    # probe: a recorded success whose store is emptied
    ev = json.loads(next(l for l in lines if '"res":true' in l and '"kind":"punch1"' in l and '"k":"none"' not in l.split('"store":')[1]))
    ev["store"] = [{"k": "lit", "v": {"s": 1, "m": [77]}} for _ in ev["store"]]
    ptr = os.path.join(d, "probe.ndjson")
    open(ptr, "w").write(json.dumps(ev) + "\n")
    pv = vf.validate_trace("Trace_Unify", ptr, "c12-probe", par=1)
    c.probe("recorded solution replaced by an unrelated literal", any('"C12"' in r["what"] for r in pv["rejects"]))
    c.assumptions += ["definitional equality = Conv of spec/GramNorm.tla; hosts have no divergent definitions, so conversion terminates",
                      "a crash / timeout of unify on a pair is counted as inconclusive here (C14 owns crashes)"]
    c.cov["exhaustive"] = True


def replay_file(path):
    print(json.dumps(json.load(open(path))["replay"])[:3000])
    return 0
