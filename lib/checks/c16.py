"""C16 - printed terms read back as the same term.
G  inputs are TLC enumerations: every syntax tree <= S nodes incl. implicit binders and redundant parentheses (MC_Trees),
   every well-scoped named term <= S nodes with used/unused binder names and nested groups (MC_Scope), every program
   <= S nodes over all formers (MC_Programs; also its elaborated term and type when accepted).
B  parse -> to_string() -> tokenize -> parse in the same scope; the two real terms are compared structurally by the harness
   on everything and by TLC (Trace_RoundTrip!SameRead) on a sample and on every failure."""
import json, os
import vf, grammar
from checks import c07, c08, pipecommon as pc


def run(c):
    vf.build_harness()
    grammar.generate()
    q = c.quick
    c.cov["bounds"] = {"trees": "<= %d nodes, all formers, implicit binders, 1 redundant parenthesis" % (5 if q else 6), "named_terms": "<= %d nodes" % (6 if q else 7), "programs": "<= %d nodes" % (5 if q else 6)}
    jobs = [("SENT", "MC_Trees", c07.trees_cfg(5 if q else 6, 1, c07.ALLKINDS, {"prod", "sum", "diff", "lt"}), "trees-5" if q else "trees-6"),
            ("SENT", "MC_Trees", c07.trees_cfg(6, 1, {"var", "type", "app", "lam", "pi", "ndpi", "let", "if"}, {"sum"}), "trees-6-binders"),
            # function types whose result is a definition group: the parameter used in some definitions only, in the body only, nowhere
            ("SENT", "MC_Trees", c07.trees_cfg(7 if q else 8, 0, {"var", "type", "pi", "let"}, {"sum"}), "trees-7-pilet" if q else "trees-8-pilet"),
            ("SCOPE", "MC_Scope", c08.cfg(6 if q else 7), "scope-%d" % (6 if q else 7)),
            ("PROG", "MC_Programs", pc.prog_cfg(5 if q else 6, ["sum", "quot", "lt"]), "prog-s%d" % (5 if q else 6)),
            ("PROG", "MC_Programs", pc.prog_cfg(4 if q else 5, ["sum", "lt"], holes=True), "prog-holes%d" % (4 if q else 5))]
    # M (design level): wherever the grammar requires parentheses the model of Display (GramShow) writes them
    show_cfg = vf.cfg_consts(MaxSize=5 if q else 6, MaxParens=0, MaxDrops=0, Kinds=c07.ALLKINDS, BinOps={"prod", "quot", "sum", "diff", "lt"}) + \
        "INIT Init\nNEXT Next\nINVARIANT InvShowValid\nCHECK_DEADLOCK FALSE\n"
    sv = vf.tlc_generate("MC_Trees", show_cfg, "showvalid-%d" % (5 if q else 6), timeout=6000, workers=14)
    c.add_tlc(sv, "ShowValid: the printer's parenthesisation is sufficient for every (parent position, child form) pair")
    if sv["violated"]:
        c.spec_violation(sv, "the model of Display leaves out parentheses the grammar requires")
        return
    evfiles = []
    d = os.path.join(vf.WORK, "round")
    os.makedirs(d, exist_ok=True)
    for tag, module, cfg, name in jobs:
        st = vf.tlc_generate(module, cfg, name, timeout=6000, workers=14)
        c.add_tlc(st, "generation of round-trip inputs (%s)" % name)
        if st["violated"]:
            c.spec_violation(st, "specification")
            return
        out, evp = os.path.join(d, name + ".json"), os.path.join(d, name + ".ndjson")
        vf.gv(["roundtrip", tag, st["out"], out, evp, 150 if q else 1500], timeout=3000)
        r = json.load(open(out))
        c.cov["replayed_cases"] += r["round_trips"]
        c.cov["traces_validated_against_impl"] += r["round_trips"]
        c.cov.setdefault("round_trips", {})[name] = {k: r[k] for k in r if k != "first"}
        for m in r["first"]:
            c.violate("%s: `%s` is printed as `%s`" % (m["what"], m.get("text"), m.get("printed")),
                      {"kind": "roundtrip", "what": m["what"][:80], "of": m.get("of"), "text": m.get("text"), "printed": m.get("printed"),
                       "implicit_nd_pi": bool(m.get("implicit_nd_pi")), "ok_when_made_explicit": bool(m.get("ok_when_made_explicit"))})
        evfiles.append(evp)
        if r["round_trips"]:
            c.sample({"input": name, "round_trips": r["round_trips"]})
    # ---- binders over definition GROUPS: whether a function type is printed with its parameter's name depends on where the
    # parameter is used -- in some definitions only, in the body only, in an annotation, nowhere (every combination, two and three
    # definitions, function types and functions, explicit and implicit)
    texts = []
    dchoice = ["a", "int", "(z : a) => z", "(z : int) => z"]
    for head in ["(a : type) -> ", "(a : type) => ", "{a : type} -> ", "(a : type) -> (b : type) -> "]:
        for d1 in dchoice:
            for d2 in dchoice:
                for body in ["x", "y", "a", "int"]:
                    texts.append("%s(x = %s; y = %s; %s)" % (head, d1, d2, body))
                    texts.append("%s(x : %s = 1; y = %s; %s)" % (head, "a" if d1 == "a" else "int", d2, body))
                for d3 in dchoice[:2]:
                    texts.append("%s(x = %s; y = %s; w = %s; y)" % (head, d1, d2, d3))
    tp = os.path.join(d, "binder-groups.txt")
    open(tp, "w").write("".join('<<"TEXT", %s>>\n' % json.dumps(json.dumps({"text": t})) for t in texts))
    out, evp = os.path.join(d, "binder-groups.json"), os.path.join(d, "binder-groups.ndjson")
    vf.gv(["roundtrip", "TEXT", tp, out, evp, 20], timeout=3000)
    r = json.load(open(out))
    c.cov["replayed_cases"] += r["round_trips"]
    c.cov.setdefault("round_trips", {})["binder-groups"] = {k: r[k] for k in r if k != "first"}
    for m in r["first"]:
        c.violate("%s: `%s` is printed as `%s`" % (m["what"], m.get("text"), m.get("printed")),
                  {"kind": "roundtrip", "what": m["what"][:80], "of": m.get("of"), "text": m.get("text"), "printed": m.get("printed"),
                   "implicit_nd_pi": bool(m.get("implicit_nd_pi")), "ok_when_made_explicit": bool(m.get("ok_when_made_explicit"))})
    evfiles.append(evp)
    allp = os.path.join(d, "all.ndjson")
    with open(allp, "w") as o:
        for p in evfiles:
            o.write(open(p).read())
    tv = vf.validate_trace("Trace_RoundTrip", allp, "c16", chunk_events=400, par=8)
    c.add_trace(tv, "Trace_RoundTrip")
    c.cov["tlc_rejections"] = len(tv["rejects"])   # the same failures as above, judged by the TLA+ predicate
    # probe: corrupt t2 of one event
    ev = json.loads(next(l for l in open(allp) if '"k":"app"' in l))
    ev["t2"] = {"k": "app", "a": ev["t2"], "b": {"k": "type"}}
    ptr = os.path.join(d, "probe.ndjson")
    open(ptr, "w").write(json.dumps(ev) + "\n")
    pv = vf.validate_trace("Trace_RoundTrip", ptr, "c16-probe", par=1)
    c.probe("corrupted re-read term", len(pv["rejects"]) == 1)
    c.assumptions += ["'same term' = same De Bruijn binding structure, implicitness, operators, literals and holes (hole identity and names are not compared)",
                      "the re-read happens in the scope the term was parsed in"]
    c.cov["exhaustive"] = True


def replay_file(path):
    print(json.dumps(json.load(open(path))["replay"])[:3000])
    return 0
