"""C06 - definitional equality used by the checker agrees with evaluation.
M  MC_Conv: on every accepted program <= S the specification's weak-head normal form equals its value (ground types),
   Conv = equality of normal forms, every term is convertible with itself and its reducts.
A  (i) replay: real normalize_weak_head(elab) and evaluate(elab) = the prescribed literal for every closed ground program;
   (ii)/(iii) TLC-generated pairs (reflexive, reducts, same-type partners with the normal-form verdict) through the real
   unify in both argument orders; TLC judges the recorded calls (Trace_Unify)."""
import json, os
import vf
from checks import pipecommon as pc


def conv_cfg(size):
    return vf.cfg_consts(MaxSize=size, FreeVars=0, MaxIdx=3, TyFuel=400, RunFuel=60, Formers=pc.FORMERS, Ops={"sum", "quot", "lt"}, Lits={0, 1}) + \
        "INIT BInit\nNEXT BNext\nINVARIANTS WhnfRunAgree ConvIsNfEq ConvReflRed Emit\nCHECK_DEADLOCK FALSE\n"


def run(c):
    vf.build_harness()
    size = 6 if c.quick else 7
    c.cov["bounds"] = {"program_size_whnf_vs_eval": size, "pair_host_size": 5 if c.quick else 6, "pool": 14}
    r, _ = pc.enumerate_programs(c, "C06", size, ["sum", "quot", "lt"] if c.quick else ["quot", "lt"], "s%d" % size, every=0)
    if r is None:
        return
    ps = 5 if c.quick else 6
    st = vf.tlc_generate("MC_Conv", conv_cfg(ps), "conv-%d" % ps, timeout=6000, workers=14)
    c.add_tlc(st, "WhnfRunAgree / ConvIsNfEq / ConvReflRed on all accepted programs <= %d; pair generation" % ps)
    if st["violated"]:
        c.spec_violation(st, "coherence theorem of the specification")
        return
    d = os.path.join(vf.WORK, "conv")
    os.makedirs(d, exist_ok=True)
    tr, summ = os.path.join(d, "trace.ndjson"), os.path.join(d, "summary.json")
    vf.gv(["record-unify", st["out"], tr, summ], timeout=3000)
    s = json.load(open(summ))
    c.cov["unify_pairs"] = {k: s[k] for k in s if k != "crashed"}
    c.cov["inconclusive"] += s["crashes"]
    c.cov["replayed_cases"] += s["calls"]
    # every operator, stuck below a binder
    so = vf.tlc_generate("MC_ConvOps", "INIT Init\nNEXT Next\nINVARIANT Emit\nCHECK_DEADLOCK FALSE\n", "convops", timeout=3000, workers=1)
    c.add_tlc(so, "operator terms below a binder against other operators / operands / normal forms, with the normal-form verdict; generation")
    tr2, summ2 = os.path.join(d, "trace-ops.ndjson"), os.path.join(d, "summary-ops.json")
    vf.gv(["record-unify", so["out"], tr2, summ2], timeout=3000)
    s2 = json.load(open(summ2))
    c.cov["unify_pairs_operators"] = {k: s2[k] for k in s2 if k != "crashed"}
    c.cov["inconclusive"] += s2["crashes"]
    c.cov["replayed_cases"] += s2["calls"]
    open(tr, "a").write(open(tr2).read())
    tv = vf.validate_trace("Trace_Unify", tr, "c06", chunk_events=800, par=10)
    c.add_trace(tv, "Trace_Unify (conversion pairs)")
    for rj in tv["rejects"]:
        what = rj["what"]
        ev = rj["event"] or {}
        if '"C06"' in what or ('"C12"' in what and ev.get("kind") == "reduct"):
            c.violate("unify on a hole-free pair: " + what[:200], {"kind": "trace-unify", "tag": "C06", "what": what[:300], "pair_kind": ev.get("kind"), "a": ev.get("a"), "b": ev.get("b"), "swap": ev.get("swap")})
    # (i) beyond the enumerated bound: generated programs of ground type (type-directed, recursion, big operands, corpus)
    n = 1 if c.quick else 15
    evg = pc.generated(c, "C06", [("corpus", 0), ("typed", 300 * n, 3), ("recursion", 60 * n, 8), ("bigint", 80 * n), ("deforder", 100 * n), ("groups", 100 * n), ("chains", 150 * n)], fuel=2000)
    pc.validate(c, "C06", [evg], "whnf-vs-eval")
    lines = open(tr).read().splitlines()
    ev = json.loads(next(l for l in lines if '"kind":"conv-no"' in l))
    ev["res"] = True
    ptr = os.path.join(d, "probe.ndjson")
    open(ptr, "w").write(json.dumps(ev) + "\n")
    pv = vf.validate_trace("Trace_Unify", ptr, "c06-probe", par=1)
    c.probe("recorded result of a conv-no pair flipped", any('"C06"' in r["what"] for r in pv["rejects"]))
    pc.probe_replay(c, "C06", {"t": pc.SUM12, "holes": False, "v": {"ty": "ok", "why": "", "tyT": {"k": "int"}, "dord": "ok",
                    "out": {"r": "end", "t": {"k": "lit", "v": {"s": 1, "m": [4]}}, "why": "value"}}}, "prescribed value of 1 + 2 changed to 4")
    c.assumptions += ["normal forms are compared modulo names and annotations of function parameters (Same of spec/GramTerm.tla)"]
    c.cov["exhaustive"] = True


def replay_file(path):
    print(json.dumps(json.load(open(path))["replay"])[:3000])
    return 0
