"""C01 - accepted programs never get stuck (progress)."""
import vf
from checks import pipecommon as pc


def run(c):
    vf.build_harness()
    size = 6 if c.quick else 7
    ops = ["sum", "quot", "lt"] if c.quick else ["quot", "lt"]
    c.cov["bounds"] = {"program_size": size, "operators": ops, "hole_programs_size": 5 if c.quick else 6}
    r, ev1 = pc.enumerate_programs(c, "C01", size, ops, "s%d" % size, every=300 if c.quick else 3000)
    if r is None:
        return
    _, ev2 = pc.enumerate_programs(c, "C01", 5 if c.quick else 6, ["sum", "lt"], "holes", holes=True, every=40 if c.quick else 200)
    n = 1 if c.quick else 12
    ev3 = pc.generated(c, "C01", [("corpus", 0), ("perturb", 300 * n), ("punch", 300 * n), ("hopunch", 0), ("typed", 250 * n, 3), ("typelevel", 0), ("crossop", 0), ("deforder", 300 * n), ("alias", 100 * n), ("recursion", 40 * n, 10), ("groups", 200 * n), ("lettypes", 0), ("holeparam", 0), ("deforder3", 0 if not c.quick else 380), ("holescope", 500 * n), ("holedef", 0)])
    allp = pc.validate(c, "C01", [ev1, ev2, ev3], "events")

    def mut(ev):
        if ev.get("accepted") and ev.get("endk") == "value" and ev["end"].get("k") == "lit":
            ev["end"] = {"k": "app", "a": ev["end"], "b": ev["end"]}
            ev["endk"] = "stuck"
            ev["steps"] = []
            ev["nsteps"] = 0
            return ev
    pc.probe(c, "C01", allp, mut, "recorded end state replaced by a stuck application")
    pc.probe_replay(c, "C01", {"t": {"k": "app", "a": pc.LIT1, "b": pc.LIT2}, "holes": False,
                                "v": {"ty": "ill", "why": "x", "tyT": {"k": "type"}, "dord": "ok", "out": {"r": "na"}}}, "probe is a no-op when rejected") if False else None
    c.assumptions += ["Step/StuckReason of spec/GramEval.tla define 'stuck'; value definitions of a group are available to the whole group",
                      "runs are cut after 60 (enumeration) / 400 (generated programs) steps: 'keeps running'",
                      "exhaustive only up to the stated program size; generated families beyond"]
    c.cov["exhaustive"] = True


def replay(path):
    import json
    print(json.dumps(json.load(open(path))["replay"])[:3000])
    return 0
