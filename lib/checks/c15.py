"""C15 - diagnostics point at the offending source text.
M/G MC_Listing: every text of <= L lines x <= K characters (1..4-byte characters, blanks) with every range on character
    boundaries, and what GramListing says the excerpt must show (lines, numbers, text, must/may marked columns).
A   (i) the real listing() rendered without colour is read back and compared;
    (ii) planted faults with an unambiguous offender: scoping faults planted on every TLC-enumerated sentence (a use renamed
    to an unbound name, a binder renamed to a name in scope; non-ASCII names before the fault, preceding lines), type faults
    planted on every enumerated well-typed program and on the corpus (operand / condition / applied literal / argument of a
    wrong ground type; multi-line layouts): exactly one diagnostic, whose range is the offender's text."""
import json, os
import vf, grammar
from checks import pegcommon
from checks import c07, pipecommon as pc


def list_cfg(lines, chars, charset):
    return "CONSTANTS MaxLines = %d  MaxChars = %d  Chars <- %s\nINIT Init\nNEXT Next\nINVARIANT Emit\nCHECK_DEADLOCK FALSE\n" % (lines, chars, charset)


def run(c):
    vf.build_harness()
    grammar.generate()
    q = c.quick
    d = os.path.join(vf.WORK, "diag")
    os.makedirs(d, exist_ok=True)
    c.cov["bounds"] = {"listing_texts": "3 lines x 2 chars over {x, e-acute, space}" + ("" if q else "; 3 x 3 over 5 characters incl. 3- and 4-byte"),
                       "scoping_faults": "every use / binder of every syntax tree <= 5 nodes", "type_faults": "every site of every well-typed program <= %d nodes + corpus" % (5 if q else 6)}
    runs = [("list-3x2", list_cfg(3, 2, "CharsQ")), ("list-2x3", list_cfg(2, 3, "CharsQ")), ("list-2x3-wideblank", list_cfg(2, 3, "CharsW"))] + ([] if q else [("list-2x3-wide", list_cfg(2, 3, "CharsT"))])
    for name, cfg in runs:
        st = vf.tlc_generate("MC_Listing", cfg, name, timeout=6000, workers=14)
        c.add_tlc(st, "all texts and ranges with the prescribed excerpt (%s); generation" % name)
        out = os.path.join(d, name + ".json")
        vf.gv(["replay-listing", st["out"], out], timeout=3000)
        r = json.load(open(out))
        c.cov["replayed_cases"] += r["cases"]
        c.cov["traces_validated_against_impl"] += r["cases"]
        c.sample(r["sample"])
        for m in r["first"]:
            c.violate("%s: text %r range [%d, %d)" % (m["what"], m["text"], m["s"], m["e"]), dict(m, kind="replay-listing"))
    # the range of an unexpected symbol is that symbol (its whole grapheme cluster): all texts over the error alphabets, the
    # one with context-dependent cluster boundaries included, replayed into the real tokenizer
    from checks import lexcommon as lc
    for alpha in ("AErrors", "AClusters"):
        stl = vf.tlc_generate("MC_Lexer", lc.lexer_cfg(alpha, 5 if q else 6, lc.ALPHABETS[alpha]), "lex-%s-%d" % (alpha, 5 if q else 6), timeout=3000)
        c.add_tlc(stl, "all texts over %s with the prescribed diagnostics; generation" % alpha)
        rr = lc.replay(c, stl, "c15-" + alpha, sig=True)
        for m in rr["first"]:
            if m["got"].get("errs") != m["want"].get("errs"):
                c.violate("unexpected-symbol diagnostics differ on %r" % m["text"], {"kind": "replay-lex-errors", "text": m["text"], "got": m["got"].get("errs"), "want": m["want"].get("errs")})
    # ---- definition-order diagnostics: "The definition of A references B ..." must show the definition of A (the text after
    # its `=`), nothing else.  Groups of 3-5 definitions, one per line, with functions reached indirectly; launched through the
    # real binary; the excerpt (gutter line number, overlined columns) is read back from the message.
    import random, re, cli
    gram = vf.build_gram()
    rr = random.Random(c.seed)
    dd = os.path.join(d, "deforder")
    os.makedirs(dd, exist_ok=True)
    ndo = ndiag = 0
    for fi in range(60 if q else 600):
        n = rr.randint(3, 5)
        is_fun = [rr.random() < 0.45 for _ in range(n)]
        rhs = []
        for i in range(n):
            others = [j for j in range(n) if j != i]
            j = rr.choice(others)
            if is_fun[i]:
                rhs.append("(x : int) => %s + x" % ("d%d" % j if not is_fun[j] else "d%d x" % j))
            else:
                rhs.append(rr.choice(["%d + %d" % (rr.randint(0, 9), rr.randint(0, 9)), "d%d %d" % (j, rr.randint(0, 3)) if is_fun[j] else "d%d + 1" % j]))
        pad = [" " * rr.randint(0, 3) for _ in range(n)]
        lines = ["%sd%d = %s" % (pad[i], i, rhs[i]) for i in range(n)] + ["d0" if not is_fun[0] else "d0 1"]
        path = os.path.join(dd, "o%03d.g" % fi)
        open(path, "w").write("\n".join(lines) + "\n")
        rc, out, err = cli.launch(gram, "check", path)
        text = err.decode("utf-8", "replace")
        ndo += 1
        for m in re.finditer(r"The definition of `(d\d+)` references `(d\d+)`[^\n]*\n\n((?:[^\n]*\n)+?)(?:\n|$)", text):
            ndiag += 1
            a = int(m.group(1)[1:])
            block = m.group(3).split("\n")
            shown = [(int(g.group(1)), g.group(2)) for g in (re.match(r"\s*(\d+) \u2502 (.*)$", b) for b in block) if g]
            marks = [b for b in block if "\u203e" in b]
            ok = len(shown) == 1 and shown[0][0] == a + 1 and len(marks) == 1
            if ok:
                gut = len(block[0]) - len(shown[0][1])
                col0 = marks[0].index("\u203e") - gut
                marked = shown[0][1][col0:col0 + marks[0].count("\u203e")]
                ok = marked == rhs[a]
            if not ok:
                c.violate("definition-order diagnostic about %s does not show the definition of %s: %s" % (m.group(1), m.group(1), " | ".join(lines)),
                          {"kind": "deforder-excerpt", "text": "\n".join(lines), "about": m.group(1), "excerpt": m.group(3)[:400]})
    c.cov["replayed_cases"] += ndo
    c.cov["definition_order_diagnostics"] = {"files": ndo, "diagnostics_checked": ndiag}
    if ndiag == 0:
        raise vf.ToolError("no definition-order diagnostic was produced by the generated groups")
    # ---- syntax diagnostics: position, expectation and order as the parser specification prescribes (every token string up to the
    # bound through parse(); larger inputs through the memo-table trace)
    pegcommon.run(c, "C15", 400 if c.quick else 4000)
    # probe (i)
    rec = vf.first_tag(vf.tlc_generate("MC_Listing", runs[0][1], runs[0][0])["out"], "LIST", 3000)
    rec = next(x for x in rec if x["lines"] and x["must"][0])
    rec["must"][0] = rec["must"][0] + [max(rec["may"][0] + [0]) + 1]
    src = os.path.join(d, "probe.txt")
    open(src, "w").write('<<"LIST", %s>>\n' % json.dumps(json.dumps(rec)))
    pout = os.path.join(d, "probe.json")
    vf.gv(["replay-listing", src, pout])
    c.probe("corrupted prescribed must-mark set", json.load(open(pout))["mismatches"] == 1)
    # (ii) scoping faults on TLC's syntax trees
    st = vf.tlc_generate("MC_Trees", c07.trees_cfg(5 if q else 6, 1, c07.ALLKINDS, {"prod", "sum", "diff", "lt"}), "trees-5" if q else "trees-6", timeout=6000, workers=14)
    c.add_tlc(st, "syntax trees hosting planted scoping faults; generation")
    out = os.path.join(d, "plant-scope.json")
    vf.gv(["plant-scope", st["out"], out], timeout=3000)
    r = json.load(open(out))
    c.cov["replayed_cases"] += r["cases"]
    c.cov["planted_scoping_faults"] = r["cases"]
    for m in r["first"]:
        c.violate("%s: %r" % (m["what"], m["text"]), dict(m, kind="plant-scope"))
    # (iii) the source range of every node of the parser's output = the tokens of that node (`sp` prescribed by GramUnparse)
    out = os.path.join(d, "node-spans.json")
    vf.gv(["replay-parse", st["out"], 0, out], timeout=3000)
    r = json.load(open(out))
    c.cov["replayed_cases"] += r["derivations"]
    c.cov["node_span_trees"] = r["derivations"]
    for m in r["span_first"]:
        c.violate("source range of a node is not the node's text: %s (%s)" % (m["text"], m["detail"]),
                  {"kind": "node-span", "text": m["text"], "detail": m["detail"], "lost_open_paren": m["detail"].startswith("LOST-OPEN-PAREN")})
    # (ii) type faults on TLC's well-typed programs and on the corpus
    sp = vf.tlc_generate("MC_Programs", pc.prog_cfg(5 if q else 6, ["sum", "quot", "lt"]), "prog-s%d" % (5 if q else 6), timeout=6000, workers=14)
    c.add_tlc(sp, "well-typed programs hosting planted type faults; generation")
    n = 0
    for name, src_ in (("enum", sp["out"]), ("corpus", "corpus")):
        out = os.path.join(d, "plant-type-%s.json" % name)
        vf.gv(["plant-type", src_, out], timeout=3000)
        r = json.load(open(out))
        n += r["cases"]
        for m in r["first"]:
            if m["what"].startswith("harness:"):
                c.cov["inconclusive"] += 1
                continue
            c.violate("%s (%s): %r" % (m["what"], m.get("role"), m["text"]), dict(m, kind="plant-type"))
    c.cov["replayed_cases"] += n
    c.cov["planted_type_faults"] = n
    c.assumptions += ["the excerpt is read back from the colourless rendering; the byte range of a diagnostic is read back from the coloured rendering",
                      "redundant parentheses written directly around the offender may be included in the reported range",
                      "a zero-length range spans no line (never produced for the planted faults)"]
    c.cov["exhaustive"] = True


def replay_file(path):
    print(json.dumps(json.load(open(path))["replay"])[:3000])
    return 0
