"""C07 - the parser accepts exactly grammar.y and builds the tree it specifies.
M  MC_Grammar: leftmost-derivation machine over the productions GENERATED from /repo/grammar.y; every sentence <= N
   tokens with its derivation and syntax tree (Ast of GramGrammar); unambiguity = no yield with two different trees.
   MC_Trees: every surface syntax tree <= S nodes with redundant parentheses, unparsed by GramUnparse.
A  accept direction + tree shape: each sentence through the real tokenize + parse, tree compared with the prescribed one;
   reject direction: ALL 28^k token strings (k <= N) that are not sentences must be rejected by the syntax stage
   (identifier names distinct, every subset of them tried as initial context, so scoping cannot mask acceptance)."""
import json, os
import vf, grammar
from checks import pegcommon

ALLKINDS = {"var", "lit", "type", "app", "bin", "neg", "lam", "pi", "ndpi", "if", "let"}


def gram_cfg(n):
    return "CONSTANT N = %d\nINIT GInit\nNEXT GNext\nINVARIANT Emit\nCHECK_DEADLOCK FALSE\n" % n


def trees_cfg(size, parens, kinds, ops, drops=0):
    return vf.cfg_consts(MaxSize=size, MaxParens=parens, Kinds=kinds, BinOps=ops, MaxDrops=drops) + "INIT Init\nNEXT Next\nINVARIANT Emit\nCHECK_DEADLOCK FALSE\n"


def replay(c, st, name, n, reject):
    out = os.path.join(vf.WORK, "parse", name + ".json")
    os.makedirs(os.path.dirname(out), exist_ok=True)
    vf.gv(["replay-parse", st["out"], n, out] + (["reject"] if reject else []), timeout=3000)
    r = json.load(open(out))
    c.cov["replayed_cases"] += r["derivations"] + r["strings"]
    c.cov["traces_validated_against_impl"] += r["derivations"]
    c.cov.setdefault("parse", {})[name] = {k: r[k] for k in r if k not in ("first", "over", "sample", "panics", "ambiguous")}
    if r.get("sample"):
        c.sample(r["sample"])
    return r


def shape_class(text):
    return "grouped-let-body" if ("; (" in text and "=" in text) else "paren-chain" if ") - (" in text or ") (" in text or ") * (" in text or ") + (" in text or ") / (" in text else "other"


def report(c, r, pid="C07"):
    for a in r["ambiguous"]:
        c.violate("grammar.y assigns two different trees to: " + a, {"kind": "ambiguity", "yield": a})
    for m in r["first"]:
        c.violate("%s: %s" % (m["what"], m["text"]), {"kind": "replay-parse", "what": m["what"], "text": m["text"], "want": m.get("want"), "got": m.get("got"), "msg": m.get("msg")})
    for m in r["over"]:
        c.violate("%s: %s" % (m["what"], m["text"]), {"kind": "replay-parse", "what": m["what"], "text": m["text"], "context": m["context"], "got": m.get("got")})
    for m in r["panics"]:
        c.violate("parser panicked on token string: %s" % m["text"], {"kind": "parse-panic", "text": m["text"], "panic": m["panic"]})


def run(c):
    vf.build_harness()
    grammar.generate()
    n = 5 if c.quick else 6
    c.cov["bounds"] = {"sentence_tokens": n, "token_strings": "all 28^k, k <= %d" % n, "tree_nodes": "5 all formers (6 thorough); 7 over {+ - * application negation}",
                       "redundant_parentheses": 1 if c.quick else 2}
    st = vf.tlc_generate("MC_Grammar", gram_cfg(n), "grammar-%d" % n, timeout=6000, workers=14, heap="20g")
    c.add_tlc(st, "all sentences of grammar.y <= %d tokens with derivation and tree; generation" % n)
    r = replay(c, st, "sentences-%d" % n, n, True)
    report(c, r)
    runs = [("trees-5", trees_cfg(5 if c.quick else 6, 1 if c.quick else 2, ALLKINDS, {"prod", "sum", "diff", "lt"})),
            ("trees-7-chains", trees_cfg(7, 1 if c.quick else 2, {"var", "lit", "app", "bin", "neg"}, {"prod", "diff"} if c.quick else {"prod", "quot", "diff"})),
            ("trees-6-binders", trees_cfg(6, 1, {"var", "type", "app", "lam", "pi", "ndpi", "let", "if"}, {"sum"})),
            # every operator family: chains of up to four literal operands with grouped operands anywhere
            ("trees-7-arith", trees_cfg(7, 1 if c.quick else 2, {"lit", "bin"}, {"prod", "quot", "sum", "diff"}))]
    for name, cfg in runs:
        s2 = vf.tlc_generate("MC_Trees", cfg, name, timeout=6000, workers=14)
        c.add_tlc(s2, "all syntax trees (%s) unparsed; generation" % name)
        report(c, replay(c, s2, name, 0, False))
    # ---- beyond the token bound: syntax trees with ONE pair of REQUIRED parentheses left out.  Whether such a string is still a
    # sentence is decided by TLC (MC_Member: the derivation machine pruned by the target); the syntax stage must agree.
    sd = vf.tlc_generate("MC_Trees", trees_cfg(5, 0, {"var", "type", "lam", "pi", "ndpi", "let", "if", "app", "neg"} if c.quick else ALLKINDS, {"sum", "lt"}, drops=1),
                         "trees-drop-%s" % ("binders-5" if c.quick else "all-5"), timeout=6000, workers=14)
    c.add_tlc(sd, "syntax trees with one required pair of parentheses dropped; generation")
    d = os.path.join(vf.WORK, "parse")
    targets = os.path.join(d, "targets.ndjson")
    vf.gv(["accepts", sd["out"], targets, 8 if c.quick else 1], timeout=3000)
    tg = [json.loads(l) for l in open(targets) if l.strip()]
    if tg:
        mo = os.path.join(d, "member.out")
        sm = vf.tlc("MC_Member", "INIT Init\nNEXT Next\nINVARIANT Emit\nCHECK_DEADLOCK FALSE\n", mo, workers=12, timeout=3000, env={"TARGETS": targets})
        c.add_tlc(sm, "membership of %d under-parenthesised strings (derivation machine pruned by the target)" % len(tg))
        members = set()
        for line in open(mo, errors="replace"):
            rec = vf.parse_tlc_line(line, "MEMBER") if line.startswith('<<"MEMBER"') else None
            if rec:
                members.add(rec["id"])
        c.cov["replayed_cases"] += len(tg)
        c.cov["parse"]["dropped-parentheses"] = {"strings": len(tg), "sentences": len(members)}
        for t in tg:
            text = " ".join(t["y"])
            if t["panicked"]:
                c.violate("parser panicked on: " + text, {"kind": "parse-panic", "text": text})
            elif t["accepted"] and t["id"] not in members:
                c.violate("token string that is not a sentence of grammar.y is accepted: " + text, {"kind": "member", "what": "over-acceptance", "text": text})
            elif not t["accepted"] and t["id"] in members:
                c.violate("sentence of grammar.y rejected: " + text, {"kind": "member", "what": "over-rejection", "text": text})
    # ---- the packrat parser function by function: specification = grammar.y (TLC), real memo table = specification (trace)
    pegcommon.run(c, "C07", 600 if c.quick else 6000)
    # probe: corrupt a prescribed tree
    rec = vf.first_tag(st["out"], "SENT", 1, skip=1000)[0]
    rec["ast"] = {"k": "app", "a": rec["ast"], "b": {"k": "type"}}
    src = os.path.join(vf.WORK, "parse", "probe.txt")
    open(src, "w").write('<<"SENT", %s>>\n' % json.dumps(json.dumps(rec)))
    out = os.path.join(vf.WORK, "parse", "probe.json")
    vf.gv(["replay-parse", src, 0, out])
    c.probe("corrupted prescribed tree", json.load(open(out))["tree_mismatches"] == 1)
    c.assumptions += ["GramGrammar!Ast is the reading of 'the tree the grammar specifies' (left association of application, * /, + - chains; chains stop at parentheses; unparenthesised nested definitions form one group)",
                      "`;` stands for both terminator kinds (the line-break terminator is C10's subject)",
                      "bison is not installed: unambiguity is decided by exhaustive enumeration up to the bound, not by an LR construction"]
    c.cov["exhaustive"] = True


def replay_file(path):
    print(json.dumps(json.load(open(path))["replay"])[:3000])
    return 0


