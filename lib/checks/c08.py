"""C08 - every variable occurrence is bound to the right binder.
G  MC_Scope: every named surface term <= S nodes over two names and `_` (all binder forms, chained and parenthesised
   groups with value definitions), well scoped or not, with GramScope's verdict.
A  replay into the real parser with four name pools (keyword prefixes, non-ASCII): rejected iff a scoping error, else the
   De Bruijn index of every occurrence and the number of holes must be the prescribed ones.
B  random deep named terms; TLC recomputes the rendering and the verdict (Trace_Scope)."""
import json, os
import vf


def cfg(size):
    return 'CONSTANTS MaxSize = %d  Names = {"a", "b"}\nINIT Init\nNEXT Next\nINVARIANT Emit\nCHECK_DEADLOCK FALSE\n' % size


def run(c):
    vf.build_harness()
    size = 6 if c.quick else 7
    c.cov["bounds"] = {"term_nodes": size, "names": ["a", "b", "_"], "name_pools": 4, "random_terms": "binder depth <= 40, <= 150 nodes"}
    st = vf.tlc_generate("MC_Scope", cfg(size), "scope-%d" % size, timeout=6000, workers=14)
    c.add_tlc(st, "all named surface terms <= %d nodes with the scoping verdict; generation" % size)
    out = os.path.join(vf.WORK, "scope", "replay.json")
    os.makedirs(os.path.dirname(out), exist_ok=True)
    vf.gv(["replay-scope", st["out"], out], timeout=3000)
    r = json.load(open(out))
    c.cov["replayed_cases"] += r["cases"]
    c.cov["traces_validated_against_impl"] += r["cases"]
    c.sample(r["sample"])
    for m in r["first"]:
        c.violate("%s: %s" % (m["what"], m["text"]), dict(m, kind="replay-scope"))
    # probe A
    rec = vf.first_tag(st["out"], "SCOPE", 400)
    rec = next(x for x in rec if x["errs"] == 0 and x["idx"])
    rec["idx"][0] += 1
    src = os.path.join(vf.WORK, "scope", "probe.txt")
    open(src, "w").write('<<"SCOPE", %s>>\n' % json.dumps(json.dumps(rec)))
    pout = os.path.join(vf.WORK, "scope", "probe.json")
    vf.gv(["replay-scope", src, pout])
    c.probe("corrupted prescribed index", json.load(open(pout))["mismatches"] == 1)
    # direction B
    tr = os.path.join(vf.WORK, "scope", "trace.ndjson")
    vf.gv(["record-scope", c.seed, 600 if c.quick else 20000, 150, tr])
    consts = 'CONSTANT Names = {"a","b","c","d","e"}\n'
    tv = vf.validate_trace("Trace_Scope", tr, "c08", chunk_events=150, par=8, consts=consts)
    c.add_trace(tv, "Trace_Scope")
    for rj in tv["rejects"]:
        ev = rj["event"] or {}
        c.violate("scoping of a random term: " + rj["what"], {"kind": "trace-scope", "what": rj["what"], "text": " ".join(ev.get("toks", []))[:3000]})
    lines = open(tr).read().splitlines()
    ev = json.loads(next(l for l in lines if '"ok":true' in l and '"idx":[' in l and '"idx":[]' not in l))
    ev["obs"]["idx"][0] += 1
    ptr = os.path.join(vf.WORK, "scope", "probe.ndjson")
    open(ptr, "w").write(json.dumps(ev) + "\n")
    pv = vf.validate_trace("Trace_Scope", ptr, "c08-probe", par=1, consts=consts)
    c.probe("corrupted recorded index", len(pv["rejects"]) >= 1)
    c.assumptions += ["GramScope!R is the reading of the scoping rules of the statement; group definitions are syntactic values so the definition-order diagnostic cannot interfere",
                      "a rejection is attributed to scoping when every diagnostic says 'not in scope' or 'already exists'"]
    c.cov["exhaustive"] = True


def replay_file(path):
    print(json.dumps(json.load(open(path))["replay"])[:3000])
    return 0
