"""C02 - running a program yields the value the semantics prescribes."""
import json
import vf
from checks import pipecommon as pc


def run(c):
    vf.build_harness()
    size = 6 if c.quick else 7
    ops = ["sum", "quot", "lt"] if c.quick else ["quot", "lt"]
    c.cov["bounds"] = {"program_size": size, "operators": ops, "all_operator_size": 4, "big_operand_digits": "1..90", "recursion_depth": 12 if c.quick else 200}
    r, ev1 = pc.enumerate_programs(c, "C02", size, ops, "s%d" % size, every=300 if c.quick else 3000)
    if r is None:
        return
    # every operator, negative and boundary-equal literals, at a smaller size
    _, ev2 = pc.enumerate_programs(c, "C02", 4 if c.quick else 5, ["sum", "diff", "prod", "quot", "lt", "le", "eq", "gt", "ge"], "allops",
                                   formers={"lit", "true", "false", "int", "var", "lam", "app", "bin", "neg", "if", "let1"}, every=100 if c.quick else 1000)
    n = 1 if c.quick else 15
    ev3 = pc.generated(c, "C02", [("corpus", 0), ("bigint", 300 * n), ("typed", 400 * n, 3), ("deforder", 100 * n), ("recursion", 60 * n, 12 if c.quick else 60), ("alias", 60 * n), ("groups", 150 * n), ("chains", 100 * n), ("holedef", 0)], steps_every=4, fuel=3000 if c.quick else 20000)
    allp = pc.validate(c, "C02", [ev1, ev2, ev3], "events", chunk=60)

    def mut(ev):
        if ev.get("accepted") and ev.get("endk") == "value" and ev["end"].get("k") == "lit" and ev.get("nsteps", 0) > 0 and not ev["steps"]:
            v = ev["end"]["v"]
            ev["end"] = {"k": "lit", "v": {"s": 1, "m": [v["m"][0] + 1] + v["m"][1:]}}
            return ev
    pc.probe(c, "C02", allp, mut, "recorded final literal changed by one")
    pc.probe_replay(c, "C02", {"t": pc.SUM12, "holes": False, "v": {"ty": "ok", "why": "", "tyT": {"k": "int"}, "dord": "ok",
                    "out": {"r": "end", "t": {"k": "lit", "v": {"s": 1, "m": [4]}}, "why": "value"}}}, "prescribed value of 1 + 2 changed to 4")
    c.assumptions += ["GramEval (small step) is the prescribed semantics; GramSem (independent big-step environment semantics) agrees with it on every enumerated program (TLC invariant SemAgree)",
                      "integers of any magnitude are sign + base-10^4 limbs (spec/GramInt.tla); the harness converts BigInt through its decimal string",
                      "runs longer than the fuel are 'keeps running'"]
    c.cov["exhaustive"] = True


def replay(path):
    print(json.dumps(json.load(open(path))["replay"])[:3000])
    return 0
