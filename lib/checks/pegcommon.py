"""The packrat parser as a specification (spec/GramPeg.tla), shared by C07 / C14 / C15 / C17.
M  MC_Peg: on EVERY token string up to the bound over an alphabet the specification's parser (36 memoised functions, ordered
   choice, commit points, re-synchronisation, the 'confident' flag) accepts exactly the sentences of grammar.y (the output of
   the derivation machine MC_Grammar is read back) and builds a sane table; every string is emitted with the syntax errors the
   specification prescribes (position, expectation, order).
A  replay-peg: each string through the real tokenize + parse; acceptance by the syntax stage and the diagnostics (read back
   from the messages) must be the prescribed ones.
B  record-peg + Trace_Peg: sentences, mutated sentences and token soup up to 70 tokens; the guarded hook in cache_return!
   delivers every result stored in the memo table; TLC re-derives each stored result from the results it depends on with the
   specification's clause for that function, requires every key to be stored once, and re-derives the reported diagnostics."""
import json, os
import vf, grammar

ALL28 = ["ASTERISK", "BOOLEAN", "COLON", "DOUBLE_EQUALS", "ELSE", "EQUALS", "FALSE", "GREATER_THAN", "GREATER_THAN_OR_EQUAL", "IDENTIFIER", "IF", "INTEGER",
         "INTEGER_LITERAL", "LEFT_CURLY", "LEFT_PAREN", "LESS_THAN", "LESS_THAN_OR_EQUAL", "MINUS", "PLUS", "RIGHT_CURLY", "RIGHT_PAREN", "SLASH",
         "TERMINATOR", "THEN", "THICK_ARROW", "THIN_ARROW", "TRUE", "TYPE"]
RECOVERY = ["IDENTIFIER", "EQUALS", "TERMINATOR", "LEFT_PAREN", "RIGHT_PAREN", "IF", "THEN", "ELSE"]
BINDERS = ["IDENTIFIER", "TYPE", "COLON", "EQUALS", "TERMINATOR", "LEFT_PAREN", "RIGHT_PAREN", "LEFT_CURLY", "RIGHT_CURLY", "THICK_ARROW", "THIN_ARROW", "IF", "THEN", "ELSE"]
OPERATORS = ["IDENTIFIER", "INTEGER_LITERAL", "PLUS", "MINUS", "ASTERISK", "SLASH", "LESS_THAN", "DOUBLE_EQUALS", "LEFT_PAREN", "RIGHT_PAREN", "TERMINATOR", "EQUALS"]
TAGWHAT = {"C07": "acceptance", "C15": "diagnostics", "C14": "crash"}


def models(quick):
    return [("all28-3", ALL28, 3), ("recovery-5", RECOVERY, 5)] if quick else [("all28-3", ALL28, 3), ("recovery-5", RECOVERY, 5), ("binders-4", BINDERS, 4), ("operators-4", OPERATORS, 4)]


def sentences_file(n):
    """yields of all sentences <= n tokens, from the (cached) run of the derivation machine"""
    grammar.generate()
    st = vf.tlc_generate("MC_Grammar", "CONSTANT N = %d\nINIT GInit\nNEXT GNext\nINVARIANT Emit\nCHECK_DEADLOCK FALSE\n" % n, "grammar-%d" % n, timeout=6000, workers=14, heap="20g")
    if st["violated"] or not st.get("out"):
        raise vf.ToolError("derivation machine did not complete")
    d = os.path.join(vf.WORK, "peg")
    os.makedirs(d, exist_ok=True)
    p = os.path.join(d, "sentences-%d.ndjson" % n)
    seen = set()
    with open(st["out"], errors="replace") as f, open(p + ".tmp", "w") as o:
        for line in f:
            if line.startswith('<<"SENT"'):
                y = vf.parse_tlc_line(line, "SENT")["y"]
                k = " ".join(y)
                if k not in seen:
                    seen.add(k)
                    o.write(json.dumps({"y": y}) + "\n")
    os.replace(p + ".tmp", p)
    return p, st


def run(c, tag, events, with_model=True):
    """tag: which clauses this check counts (C07 acceptance / stored results, C15 diagnostics, C14 crash / faithful failure, C17 memoisation)"""
    d = os.path.join(vf.WORK, "peg")
    os.makedirs(d, exist_ok=True)
    info = c.cov.setdefault("packrat_specification", {})
    if with_model:
        sents, gst = sentences_file(5)
        for name, alphabet, n in models(c.quick):
            cfg = vf.cfg_consts(N=n, Alphabet=set(alphabet)) + "INIT Init\nNEXT Next\nINVARIANT PegIsCfgAndSane\nCHECK_DEADLOCK FALSE\n"
            st = vf.tlc_generate("MC_Peg", cfg, "peg-" + name, workers=14, timeout=7200, env={"SENTS": sents})
            c.add_tlc(st, "packrat specification = grammar.y on every token string <= %d over %d kinds; table sane; prescribed diagnostics (%s)" % (n, len(alphabet), name))
            if st["violated"]:
                if tag == "C07":
                    c.spec_violation(st, "the parser as specified (ordered choice + recovery) does not accept exactly grammar.y")
                continue
            out = os.path.join(d, "replay-%s-%s.json" % (name, c.pid))
            vf.gv(["replay-peg", st["out"], out], timeout=3000)
            r = json.load(open(out))
            c.cov["replayed_cases"] += r["compared"]
            c.cov["traces_validated_against_impl"] += r["compared"]
            info[name] = {k: r[k] for k in ("strings", "compared", "lex_skipped", "mismatches", "several_errors_agreeing")}
            if r.get("sample"):
                c.sample(r["sample"])
            for m in r["first"]:
                if m.get("tag") == tag:
                    c.violate("%s: %s" % (m["what"], m["text"]), {"kind": "replay-peg", "what": m["what"], "text": m["text"], "want": m.get("want"), "got": m.get("got")})
    tr = os.path.join(d, "trace-%s.ndjson" % c.pid)
    vf.gv(["record-peg", events, c.seed, tr], timeout=3000)
    evs = [l for l in open(tr) if l.strip()]
    if not evs:
        raise vf.ToolError("record-peg recorded nothing")
    first = json.loads(evs[min(3, len(evs) - 1)])
    if all(not json.loads(l)["memo"] for l in evs[:20]):
        raise vf.ToolError("the memo hook reported nothing: is /repo built with the `verif` feature hooks (memo_store)?")
    consts = "CONSTANT CheckDemanded = %s\n" % ("TRUE" if tag == "C17" else "FALSE")
    tv = vf.validate_trace("Trace_Peg", tr, "peg-" + c.pid, chunk_events=max(40, len(evs) // 12 + 1), par=12, consts=consts)
    c.add_trace(tv, "Trace_Peg")
    info["trace"] = {"inputs": len(evs), "stored_results": sum(len(json.loads(l)["memo"]) for l in evs), "longest_input_tokens": max(len(json.loads(l)["toks"]) for l in evs)}
    c.sample({"toks": first["toks"], "errs": first["errs"], "stored_results": len(first["memo"])})
    for rj in tv["rejects"]:
        if '"%s"' % tag in rj["what"]:
            ev = rj["event"] or {}
            c.violate("packrat parser vs specification on `%s`: %s" % (" ".join(ev.get("toks", []))[:200], rj["what"][:300]),
                      {"kind": "trace-peg", "tag": tag, "what": rj["what"][:600], "toks": ev.get("toks")})
    # probe: one stored result corrupted / one diagnostic moved / one key stored twice
    base = None
    for l in evs:
        e = json.loads(l)
        if len(e["toks"]) >= 6 and any(v["ok"] and v["next"] > v["start"] + 1 for v in e["memo"].values()):
            base = e
            break
    if base is not None:
        pe = json.loads(json.dumps(base))
        if tag == "C17":
            pe["dups"] = 1
        elif tag == "C15":
            pe["errs"] = [{"p": 0, "e": "EOF", "at": 0}] + pe["errs"]
        elif tag == "C14":
            pe["crash"] = "probe"
        else:
            k = sorted(k for k, v in pe["memo"].items() if v["ok"] and v["next"] > v["start"] + 1)[0]
            pe["memo"][k]["next"] -= 1
        ptr = os.path.join(d, "probe-%s.ndjson" % c.pid)
        open(ptr, "w").write(json.dumps(pe) + "\n")
        pv = vf.validate_trace("Trace_Peg", ptr, "peg-probe-" + c.pid, par=1, consts=consts)
        c.probe("packrat trace: corrupted %s" % {"C17": "memo (key stored twice)", "C15": "diagnostic list", "C14": "outcome (crash)"}.get(tag, "stored result"),
                any('"%s"' % tag in x["what"] for x in pv["rejects"]))
    c.assumptions += ["GramPeg's clauses are a transcription of the parsing functions' control flow (what is consumed, where a function commits, how it re-synchronises); "
                      "the LANGUAGE it must accept is grammar.y's, decided by the independent derivation machine"]
