"""C17 - parsing time does not blow up with nesting or length.
M  MC_Packrat: the memo-table machine (GramPackrat) - every key computed at most once, entries linear in the input length.
B  the real parser's work (entries / hits of memoised parsing functions, counted by the guarded hook in cache_check!) and
   CPU time are recorded for 33 input families (well-formed, truncated, unbalanced) at n, 2n, 4n, 8n; TLC (Trace_Packrat)
   requires the growth allowance when the input doubles.  Running time is not a state property: level 'other'."""
import json, os
import vf

LEVEL = "other"
PACKRAT_CFG = 'CONSTANTS NT = {"term", "atom", "group"}  N = 2  MaxCalls = 2\nINIT Init\nNEXT Next\nINVARIANTS ComputedOnce WorkLinear HitsAreMemoised\nCHECK_DEADLOCK FALSE\n'


def run(c):
    vf.build_harness()
    d = os.path.join(vf.WORK, "work")
    os.makedirs(d, exist_ok=True)
    st = vf.tlc_generate("GramPackrat", PACKRAT_CFG, "packrat", workers=8, timeout=1200)
    c.add_tlc(st, "memo-table machine: computed-once, linear work")
    if st["violated"]:
        c.spec_violation(st, "memo-table design bound")
        return
    maxn = 1024 if c.quick else 4096
    tr = os.path.join(d, "trace.ndjson")
    vf.gv(["record-work", maxn, tr, 10 if c.quick else 60], timeout=3000, env={"GV_THREADS": "6"})
    evs = [json.loads(l) for l in open(tr) if l.strip()]
    if all(e["work"] == 0 for e in evs):
        raise vf.ToolError("the memo hook reported no work: is /repo built with the `verif` feature hooks?")
    tv = vf.validate_trace("Trace_Packrat", tr, "c17", chunk_events=100000, par=1)
    c.add_trace(tv, "Trace_Packrat")
    c.cov["replayed_cases"] += len(evs)
    for e in evs:
        if e.get("panic") or e.get("crashed"):
            c.cov["inconclusive"] += 1
    ratios = {}
    by = {}
    for e in evs:
        by.setdefault(e["family"], []).append(e)
    for f, es in by.items():
        es.sort(key=lambda x: x["n"])
        if len(es) >= 2 and es[-2]["work"] > 0:
            ratios[f] = round(es[-1]["work"] / es[-2]["work"], 2)
    c.cov["work_ratio_when_input_doubles"] = ratios
    c.sample(evs[3])
    for rj in tv["rejects"]:
        if '"C17"' in rj["what"]:
            ev = rj["event"] or {}
            c.violate("input family %s: %s" % (ev.get("family"), rj["what"][:200]), {"kind": "work-growth", "what": rj["what"][:300], "family": ev.get("family"), "n": ev.get("n")})
    # ---- memoisation itself: every (function, position) is computed and stored once (the memo-table trace, Trace_Peg)
    from checks import pegcommon
    pegcommon.run(c, "C17", 400 if c.quick else 4000, with_model=False)
    # probe: an exponential-looking pair
    a = dict(evs[0])
    b = dict(a, n=a["n"] * 2, work=a["work"] * 40, computes=a["work"] * 40 - a["hits"])
    ptr = os.path.join(d, "probe.ndjson")
    open(ptr, "w").write(json.dumps(a) + "\n" + json.dumps(b) + "\n")
    pv = vf.validate_trace("Trace_Packrat", ptr, "c17-probe", par=1)
    c.probe("work x40 when the input doubles", any('"C17"' in x["what"] for x in pv["rejects"]))
    c.cov["explanation"] = ("Running time is not a state property, so TLA+ cannot decide it. The property is restated on deterministic work units that the memo-table "
                            "specification (GramPackrat) defines and a guarded hook in cache_check! measures: for each of 33 input families the number of entries of memoised parsing "
                            "functions at sizes n, 2n, 4n, 8n (n up to %d tokens-ish) must grow by at most x10 per doubling (measured: x2.0 everywhere), CPU time by at most x16 once measurable, "
                            "and no case may hit the 60 s limit. TLC checks the memo-table machine's design bound and judges the recorded measurements (Trace_Packrat)." % maxn)
    c.assumptions += ["entries are counted before the cache lookup, so a function that drops its lookup makes its callees' entries explode and is seen",
                      "CPU time = best of 3 runs, in a worker with a 1 GiB stack (whether gram's own 16 MiB suffice for deep nesting is not this property's subject)"]


def replay_file(path):
    print(json.dumps(json.load(open(path))["replay"])[:3000])
    return 0
