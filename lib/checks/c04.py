"""C04 - a program's value inhabits the type reported for the program."""
import json
import vf
from checks import pipecommon as pc


def run(c):
    vf.build_harness()
    size = 6 if c.quick else 7
    ops = ["sum", "quot", "lt"] if c.quick else ["quot", "lt"]
    c.cov["bounds"] = {"program_size": size, "operators": ops, "preservation_steps": 6}
    # TLC invariant Preservation (design level) + replay: real type convertible, real value = prescribed value
    r, ev1 = pc.enumerate_programs(c, "C04", size, ops, "s%d" % size, every=100 if c.quick else 1000)
    if r is None:
        return
    _, ev2 = pc.enumerate_programs(c, "C04", 5 if c.quick else 6, ["sum", "lt"], "holes", holes=True, every=25 if c.quick else 100)
    n = 1 if c.quick else 15
    ev3 = pc.generated(c, "C04", [("corpus", 0), ("punch", 500 * n), ("hopunch", 0), ("typed", 300 * n, 3), ("typelevel", 0), ("crossop", 0), ("dependent", 200 * n), ("alias", 100 * n), ("recursion", 40 * n, 8), ("bigint", 60 * n), ("groups", 200 * n), ("lettypes", 0), ("holeparam", 0), ("holescope", 500 * n), ("groundindex2", 160 * n), ("nestgroup", 240 * n), ("holedef", 0)])
    allp = pc.validate(c, "C04", [ev1, ev2, ev3], "events")

    def mut(ev):
        if ev.get("accepted") and ev.get("endk") == "value" and ev["end"].get("k") == "lit" and ev["ty"].get("k") == "int":
            ev["end"] = {"k": "true"}
            ev["steps"] = []
            ev["nsteps"] = 0
            return ev
    pc.probe(c, "C04", allp, mut, "recorded value of an int program replaced by true")
    c.assumptions += ["the value is typed by spec/GramTyping.tla and compared with the REPORTED type by conversion", "only terminating runs (within fuel) are judged"]
    c.cov["exhaustive"] = True


def replay(path):
    print(json.dumps(json.load(open(path))["replay"])[:3000])
    return 0
