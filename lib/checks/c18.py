"""C18 - checking under a context matches the closed program; contexts are restored.
G  hosts: every closed program <= S nodes whose outermost formers are parameters / definition groups (MC_Programs, all the
   well-typed ones and a sample of the ill-typed ones -- rejection part-way through a nested scope included), plus larger
   type-directed and perturbed programs.
B  1..4 outer binders are peeled into REAL typing/definitions contexts with the offsets the code uses (0 for parameters,
   n - i for group members); type_check, normalize_weak_head and unify run on the open term under the context and
   type_check on the closed program; contexts are compared before/after structurally and by Rc identity.  TLC
   (Trace_Context) judges: same verdict, CloseType(ctx, T_open) convertible with T_closed, reported type = type of the open
   term in the specification's own context representation, normal form convertible, contexts restored."""
import json, os
import vf
from checks import pipecommon as pc


def run(c):
    vf.build_harness()
    size = 6 if c.quick else 7
    c.cov["bounds"] = {"host_size": size, "peeled_binders": "1..4", "generated_hosts": 300 if c.quick else 5000}
    st = vf.tlc_generate("MC_Programs", pc.prog_cfg(size, ["sum", "quot", "lt"] if c.quick else ["quot", "lt"]), "prog-s%d" % size, timeout=6000, workers=14)
    c.add_tlc(st, "host programs <= %d nodes with the specification's verdicts; generation" % size)
    if st["violated"]:
        c.spec_violation(st, "specification")
        return
    d = os.path.join(vf.WORK, "ctx")
    os.makedirs(d, exist_ok=True)
    progs = os.path.join(d, "hosts.jsonl")
    n = 1 if c.quick else 15
    with open(progs, "w") as f:
        for kind, count, *extra in [("typed", 150 * n, 3), ("perturb", 100 * n), ("alias", 50 * n), ("groups", 80 * n), ("corpus", 0), ("nestgroup", 240 * n), ("nestpick", 0), ("holescope", 120 * n)]:
            f.write(vf.gv(["gen-programs", kind, c.seed, count] + list(extra)).stdout)
    tr, summ = os.path.join(d, "trace.ndjson"), os.path.join(d, "summary.json")
    vf.gv(["record-ctx", st["out"], tr, summ, 40 if c.quick else 10, progs], timeout=3000)
    # all hosts <= 5 nodes, ill typed ones included (rejection part-way through a nested scope must restore the contexts too)
    st5 = vf.tlc_generate("MC_Programs", pc.prog_cfg(5, ["sum", "quot", "lt"]), "prog-s5", timeout=6000, workers=14)
    c.add_tlc(st5, "all host programs <= 5 nodes, well typed or not; generation")
    tr5, summ5 = os.path.join(d, "trace5.ndjson"), os.path.join(d, "summary5.json")
    vf.gv(["record-ctx", st5["out"], tr5, summ5, 1], timeout=3000)
    open(tr, "a").write(open(tr5).read())
    s5 = json.load(open(summ5))
    c.cov["contexts_all_small_hosts"] = s5
    c.cov["replayed_cases"] += s5["events"]
    s = json.load(open(summ))
    c.cov["contexts"] = s
    c.cov["inconclusive"] += s["crashes"]
    c.cov["replayed_cases"] += s["events"]
    # unify on unrelated terms (failure part-way below binders): the caller's definitions context must come back unchanged
    from checks import c12
    up = os.path.join(d, "mismatch.out")
    with open(up, "w") as f:
        for skel, total in ((0, 4 if c.quick else 5), (1, 6 if c.quick else 7)):
            stp = vf.tlc_generate("MC_Punch", c12.cfg(total, skel), "punch-%d-%d" % (skel, total), timeout=6000, workers=14)
            c.add_tlc(stp, "unrelated pairs (one subterm replaced by another constant); generation")
            f.writelines(l for l in open(stp["out"]) if 'mismatch' in l)
    utr, usum = os.path.join(d, "unify-trace.ndjson"), os.path.join(d, "unify-summary.json")
    vf.gv(["record-unify", up, utr, usum], timeout=3000)
    us = json.load(open(usum))
    c.cov["unify_on_unrelated_terms"] = {k: us[k] for k in us if k != "crashed"}
    c.cov["replayed_cases"] += us["calls"]
    tvu = vf.validate_trace("Trace_Unify", utr, "c18-unify", chunk_events=700, par=10)
    c.add_trace(tvu, "Trace_Unify (context restored after unify)")
    for rj in tvu["rejects"]:
        if '"C18"' in rj["what"]:
            ev = rj["event"] or {}
            c.violate("unify event rejected: " + rj["what"][:220], {"kind": "trace-unify-context", "what": rj["what"][:300], "a": ev.get("a"), "b": ev.get("b")})
    tv = vf.validate_trace("Trace_Context", tr, "c18", chunk_events=500, par=10)
    c.add_trace(tv, "Trace_Context")
    lines = open(tr).read().splitlines()
    c.sample(json.loads(lines[len(lines) // 3]))
    for rj in tv["rejects"]:
        ev = rj["event"] or {}
        c.violate("context event rejected: " + rj["what"][:220], {"kind": "trace-context", "what": rj["what"][:300], "binders": ev.get("binders"), "open": ev.get("open"), "closed": ev.get("closed")})
    ev = json.loads(next(l for l in lines if '"ok_open":true' in l))
    ev["ctx_restored"] = False
    ev["ctx_note"] = "probe"
    ptr = os.path.join(d, "probe.ndjson")
    open(ptr, "w").write(json.dumps(ev) + "\n")
    pv = vf.validate_trace("Trace_Context", ptr, "c18-probe", par=1)
    c.probe("event claiming a modified context", len(pv["rejects"]) == 1)
    ev = json.loads(next(l for l in lines if '"ok_open":true' in l and '"ty_open":{"k":"int"}' in l))
    ev["ty_open"] = {"k": "bool"}
    open(ptr, "w").write(json.dumps(ev) + "\n")
    pv = vf.validate_trace("Trace_Context", ptr, "c18-probe2", par=1)
    c.probe("recorded open type int replaced by bool", len(pv["rejects"]) == 1)
    c.assumptions += ["contexts handed to the real functions are hole-free (a caller's entry that contains an unsolved hole may legitimately be solved through the shared cell)",
                      "no obligation when the binder parts themselves are ill typed (the context is not well formed)"]
    c.cov["exhaustive"] = True


def replay_file(path):
    print(json.dumps(json.load(open(path))["replay"])[:3000])
    return 0
