"""Shared by C09 and C10: TLC generation runs over the focused alphabets and their replay into the real tokenizer."""
import json, os
import vf

ALPHABETS = {"AKeywords": False, "ASymbols": True, "AErrors": False, "AOps": True, "ALayout": True, "AClusters": False}


def lexer_cfg(alpha, n, relayouts):
    return "CONSTANTS Alphabet <- %s  N = %d  CheckRelayouts = %s\nINIT Init\nNEXT Next\n" \
           "INVARIANTS InvFold InvCorrect InvNoTwoNl InvLayout InvRelayout Emit\nCHECK_DEADLOCK FALSE\n" % (alpha, n, "TRUE" if relayouts else "FALSE")


def run_alphabet(c, alpha, n, pid):
    st = vf.tlc_generate("MC_Lexer", lexer_cfg(alpha, n, ALPHABETS[alpha]), "lex-%s-%d" % (alpha, n), timeout=3000)
    c.add_tlc(st, "tokenization predicates + layout rule + re-layout relations on all texts <= %d over %s; generation" % (n, alpha))
    if st["violated"]:
        c.spec_violation(st, "the lexer specification contradicts its own declarative statement")
        return None
    return replay(c, st, "%s-%s-%d" % (pid, alpha, n))


def replay(c, st, name, sig=False):
    out = os.path.join(vf.WORK, "lex", name + ".json")
    os.makedirs(os.path.dirname(out), exist_ok=True)
    vf.gv(["replay-lex", st["out"], out] + (["sig"] if sig else []))
    r = json.load(open(out))
    c.cov["replayed_cases"] += r["cases"]
    c.cov["traces_validated_against_impl"] += r["behaviours"]
    if r.get("sample"):
        c.sample(r["sample"])
    return r


def classify(m):
    """signature of a tokenizer mismatch, used to separate findings"""
    text = m["text"]
    got, want = m["got"], m["want"]
    if "panic" in got:
        return "panic"
    if "#" in text:
        return "comment"
    if want.get("ok") != got.get("ok"):
        return "accept-reject"
    return "tokens"


def probe_replay(c, st):
    """corrupt one prescribed token range; the replay must notice"""
    with open(st["out"], errors="replace") as f:
        line = next(l for l in f if l.startswith('<<"LEX"') and '"toks":[{' in l.replace("\\", ""))
    rec = vf.parse_tlc_line(line, "LEX")
    rec["r"]["toks"][0]["e"] += 1
    src = os.path.join(vf.WORK, "lex", "probe.txt")
    os.makedirs(os.path.dirname(src), exist_ok=True)
    open(src, "w").write('<<"LEX", %s>>\n' % json.dumps(json.dumps(rec)))
    out = os.path.join(vf.WORK, "lex", "probe.json")
    vf.gv(["replay-lex", src, out])
    c.probe("corrupted prescribed token range", json.load(open(out))["mismatches"] >= 1)
