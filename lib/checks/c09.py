"""C09 - tokens partition the source text exactly.
M  MC_Lexer: on all texts <= N over five focused alphabets the lexer machine satisfies the declarative predicates
   (Partition, MaximalMunch, KeywordsWholeWord, LiteralShape, EveryBadSymbolReported).
A  every (text, prescribed tokens | prescribed error ranges) is replayed into the real tokenize().
B  random Unicode texts (classes, widths and grapheme boundaries logged independently of the tokenizer) are judged by
   Trace_Lexer: equality with the machine, the declarative predicates on the observation, literal values by GramInt."""
import json, os
import vf
from checks import lexcommon as lc


def run(c):
    vf.build_harness()
    n = 5 if c.quick else 6
    c.cov["bounds"] = {"text_length": n, "alphabets": sorted(lc.ALPHABETS), "random_text_chars": 400 if c.quick else 2000}
    last = None
    for alpha in lc.ALPHABETS:
        st = vf.tlc_generate("MC_Lexer", lc.lexer_cfg(alpha, n, lc.ALPHABETS[alpha]), "lex-%s-%d" % (alpha, n), timeout=3000)
        c.add_tlc(st, "declarative tokenization predicates on all texts <= %d over %s; generation" % (n, alpha))
        if st["violated"]:
            c.spec_violation(st, "lexer specification vs its declarative statement")
            return
        r = lc.replay(c, st, "c09-%s" % alpha, sig=True)
        for m in r["first"]:
            c.violate("tokenize(%r) differs from the specification" % m["text"], {"kind": "replay-lex", "class": lc.classify(m), "text": m["text"], "want": m["want"], "got": m["got"]})
        last = st
    lc.probe_replay(c, last)
    # direction B
    cnt, maxc = (400, 400) if c.quick else (8000, 2000)
    tr = os.path.join(vf.WORK, "lex", "c09-trace.ndjson")
    vf.gv(["record-lex", c.seed, cnt, maxc, tr, "sig"])
    tv = vf.validate_trace("Trace_Lexer", tr, "c09", chunk_events=60 if c.quick else 120, par=8)
    c.add_trace(tv, "Trace_Lexer")
    for rj in tv["rejects"]:
        text = "".join(ch["id"] if len(ch["id"]) == 1 else "<%s>" % ch["id"] for ch in rj["event"]["text"]) if rj["event"] else ""
        c.violate("trace of the real tokenizer rejected: " + rj["what"][:200], {"kind": "trace-lex", "class": "comment" if "#" in text else "tokens", "what": rj["what"][:400], "text": text[:4000]})
    # probe B
    lines = open(tr).read().splitlines()
    ev = json.loads(next(l for l in lines if '"ok":true' in l and '"toks":[{' in l))
    ev["obs"]["toks"][0]["s"] += 1
    ptr = os.path.join(vf.WORK, "lex", "c09-probe.ndjson")
    open(ptr, "w").write(json.dumps(ev) + "\n")
    pv = vf.validate_trace("Trace_Lexer", ptr, "c09-probe", par=1)
    c.probe("corrupted recorded token", len(pv["rejects"]) >= 1)
    c.assumptions += ["character classes are Unicode's Alphabetic / Numeric / White_Space as computed by Rust's char methods in the harness, grapheme boundaries by whole-string segmentation (unicode-segmentation)",
                      "unexpected-symbol ranges are read back from the coloured excerpt of the diagnostic",
                      "which line break of a gap carries a line-break terminator is left open"]
    c.cov["exhaustive"] = True


def replay(path):
    r = json.load(open(path))["replay"]
    print(json.dumps(r)[:3000])
    return 0
