"""C10 - comments, spacing and line layout do not change a program's meaning.
M  MC_Lexer (alphabets with line breaks / comments): LayoutRule (two 28-way tables = the one-sentence rule) and the
   re-layout relations (drop comments, pad blanks, repeat line breaks, line break <-> `;`) hold on all texts <= N;
   MC_LayoutPairs: every ordered pair of token kinds x 16 gap fillings x trailers.
A  all those texts replayed into the real tokenizer.
B  re-layouts of whole programs: TLC decides whether the new layout is legal (same tokens by the specification) and
   then requires the real token stream and parse result to be unchanged."""
import json, os
import vf
from checks import lexcommon as lc

PAIRS_CFG = "INIT Init\nNEXT Next\nINVARIANTS InvLayout InvCorrect InvRelayout Emit\nCHECK_DEADLOCK FALSE\n"


def run(c):
    vf.build_harness()
    n = 5 if c.quick else 6
    c.cov["bounds"] = {"text_length": n, "alphabets": ["ALayout", "ASymbols", "AOps"], "pairs": "28 x 28 kinds x 16 gaps x 3 trailers"}
    st = vf.tlc_generate("MC_LayoutPairs", PAIRS_CFG, "layout-pairs", timeout=3000)
    c.add_tlc(st, "layout rule on every (kind, kind, gap, trailer); generation")
    if st["violated"]:
        c.spec_violation(st, "layout rule")
        return
    # the finite abstraction of both passes: the rule equivalence and the unreachability of the second pass's panic! hold
    # for texts of EVERY length (TLC explores the complete abstract state graph)
    sk = vf.tlc_generate("MC_LayoutKinds", "INIT Init\nNEXT Next\nINVARIANTS RuleEquivalent NeverTwoNl\nCHECK_DEADLOCK FALSE\n", "layout-kinds", timeout=600, workers=4)
    c.add_tlc(sk, "kind-level finite abstraction of the two lexer passes (all lengths): rule equivalence, no two consecutive line-break terminators")
    if sk["violated"]:
        c.spec_violation(sk, "layout tables vs the one-sentence rule")
        return
    runs = [("pairs", st)]
    for alpha in ("ALayout", "ASymbols", "AOps"):
        s2 = vf.tlc_generate("MC_Lexer", lc.lexer_cfg(alpha, n, True), "lex-%s-%d" % (alpha, n), timeout=3000)
        c.add_tlc(s2, "layout rule + re-layout relations on all texts <= %d over %s; generation" % (n, alpha))
        if s2["violated"]:
            c.spec_violation(s2, "layout rule / re-layout relations")
            return
        runs.append((alpha, s2))
    for name, s in runs:
        r = lc.replay(c, s, "c10-" + name)
        for m in r["first"]:
            c.violate("tokenize(%r) differs from the specification" % m["text"], {"kind": "replay-lex", "class": lc.classify(m), "text": m["text"], "want": m["want"], "got": m["got"]})
    lc.probe_replay(c, runs[1][1])
    cnt = 300 if c.quick else 10000
    tr = os.path.join(vf.WORK, "lex", "c10-trace.ndjson")
    vf.gv(["record-relayout", c.seed, cnt, tr])
    # random Unicode texts, full comparison (line-break terminators included)
    tr2 = os.path.join(vf.WORK, "lex", "c10-texts.ndjson")
    vf.gv(["record-lex", c.seed + 1, 150 if c.quick else 4000, 300, tr2, "full"])
    open(tr, "a").write(open(tr2).read())
    tv = vf.validate_trace("Trace_Lexer", tr, "c10", chunk_events=40, par=8)
    c.add_trace(tv, "Trace_Lexer (re-layouts)")
    c.cov["relayouts_discarded_by_spec"] = tv.get("discarded", 0)
    for rj in tv["rejects"]:
        ev = rj["event"] or {}
        tb = "".join(ch["id"] if len(ch["id"]) == 1 else "<%s>" % ch["id"] for ch in ev.get("tb", ev.get("text", [])))
        c.violate("re-layout changes the outcome: " + rj["what"][:200], {"kind": "trace-relayout", "class": "comment" if "#" in tb else "layout", "what": rj["what"][:300], "layout_b": tb[:3000]})
    lines = open(tr).read().splitlines()
    ev = json.loads(lines[0])
    ev["pb"] = "ok:corrupted"
    ev["tb"] = ev["ta"]
    ev["b"] = ev["a"]
    ptr = os.path.join(vf.WORK, "lex", "c10-probe.ndjson")
    open(ptr, "w").write(json.dumps(ev) + "\n")
    pv = vf.validate_trace("Trace_Lexer", ptr, "c10-probe", par=1)
    c.probe("corrupted recorded parse digest", len(pv["rejects"]) >= 1)
    c.assumptions += ["`;` counts as both an end and a start of an expression (a line break next to `;` is a second terminator)",
                      "terminator kind (line break vs `;`) and source ranges are ignored when token streams / parse results are compared",
                      "a gap may be emptied only where the specification's own Lex still yields the same tokens"]
    c.cov["exhaustive"] = True


def replay(path):
    r = json.load(open(path))["replay"]
    print(json.dumps(r)[:3000])
    return 0
