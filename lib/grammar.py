"""Generates spec module GrammarY.tla from /repo/grammar.y (so a change to the published grammar is a change to
the specification's productions, as C07 requires)."""
import os, re
import vf


def parse_grammar(path):
    txt = open(path).read()
    tokens = re.findall(r"^%token\s+(\w+)", txt, re.M)
    body = txt.split("%%")[1]
    body = re.sub(r"/\*.*?\*/", "", body, flags=re.S)
    prods = []
    order = []
    # rules are `name: alt | alt ;` -- the `if` rule of grammar.y lacks its `;`, so split on `name:` heads instead
    heads = list(re.finditer(r"(?m)^(\w+)\s*:", body))
    for i, h in enumerate(heads):
        lhs = h.group(1)
        rhs_txt = body[h.end(): heads[i + 1].start() if i + 1 < len(heads) else len(body)]
        rhs_txt = rhs_txt.strip().rstrip(";").strip()
        order.append(lhs)
        for alt in rhs_txt.split("|"):
            syms = [s for s in alt.split() if s != "%empty"]
            prods.append((lhs, syms))
    return tokens, order, prods


def generate():
    tokens, nts, prods = parse_grammar(os.path.join(vf.REPO, "grammar.y"))
    d = os.path.join(vf.WORK, "gen-spec")
    os.makedirs(d, exist_ok=True)
    q = lambda xs: ", ".join('"%s"' % x for x in xs)
    lines = ["---- MODULE GrammarY ----", "\\* GENERATED from %s/grammar.y by lib/grammar.py -- do not edit" % vf.REPO,
             "Terminals == {%s}" % q(sorted(tokens)), "Nonterminals == {%s}" % q(nts), "StartSymbol == \"%s\"" % nts[0], "Productions == <<"]
    lines.append(",\n".join('  [lhs |-> "%s", rhs |-> <<%s>>]' % (l, q(r)) for l, r in prods))
    lines += [">>", "===="]
    p = os.path.join(d, "GrammarY.tla")
    new = "\n".join(lines) + "\n"
    if not os.path.exists(p) or open(p).read() != new:
        open(p, "w").write(new)
    return p, tokens, nts, prods
