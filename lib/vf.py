"""Orchestrator library: builds the harness from /repo's working tree, runs TLC on the specification,
replays TLC-generated behaviours into the real code, validates recorded traces with TLC, writes evidence.

Exit codes of a check: 0 held on everything explored; 1 + 'VIOLATION property=<id> replay=<path>'; 2 tool error."""
import hashlib, json, os, re, shutil, subprocess, sys, time, glob

VERIF = os.path.dirname(os.path.dirname(os.path.abspath(__file__)))
SPEC = os.path.join(VERIF, "spec")
GENCACHE = os.path.join(VERIF, "work", "gen")          # TLC generation runs depend only on the specification
WORK = os.environ.get("VERIF_WORK", os.path.join(VERIF, "work"))   # overridden for seeded-mutant self-tests
HARNESS = os.path.join(VERIF, "harness")
EVID = os.environ.get("VERIF_EVID", os.path.join(VERIF, "evidence"))
REPO = os.environ.get("GRAM_REPO", "/repo")
GRAM_SRC = os.path.join(REPO, "src")
TARGET = os.path.join(WORK, "target")
GV = os.path.join(TARGET, "release", "gv")
GRAM_TARGET = os.path.join(WORK, "gram-target")
TLC_JAR_CP = "/opt/veriftools/tla/tla2tools.jar:/opt/veriftools/tla/CommunityModules-deps.jar"


class ToolError(Exception):
    pass


def log(*a):
    print("[check]", *a, file=sys.stderr, flush=True)


def sh(cmd, **kw):
    return subprocess.run(cmd, **kw)


# ---------------------------------------------------------------------------------------- builds
_built = {}


def cargo_env():
    e = dict(os.environ)
    e["CARGO_NET_OFFLINE"] = "true"
    e["GRAM_SRC"] = GRAM_SRC
    return e


def build_harness():
    """cargo build of the harness; its build.rs #[path]-includes GRAM_SRC/*.rs, so edits under /repo rebuild."""
    if "gv" in _built:
        return GV
    t0 = time.time()
    lock = os.path.join(HARNESS, "Cargo.lock")
    if not os.path.exists(lock):
        shutil.copy(os.path.join(REPO, "Cargo.lock"), lock)
    r = sh(["cargo", "build", "--release", "--offline", "--features", "verif", "--target-dir", TARGET], cwd=HARNESS, env=cargo_env(),
           stdout=subprocess.PIPE, stderr=subprocess.STDOUT, text=True)
    if r.returncode != 0:
        log(r.stdout[-4000:])
        raise ToolError("harness build failed (does /repo still compile?)")
    _built["gv"] = time.time() - t0
    log("harness built in %.1fs" % _built["gv"])
    return GV


def build_gram():
    """the gram binary itself, from /repo's working tree, into a target dir outside /repo"""
    if "gram" in _built:
        return _built["gram"]
    feats = []
    try:
        if re.search(r"^\s*verif\s*=", open(os.path.join(REPO, "Cargo.toml")).read(), re.M):
            feats = ["--features", "verif"]
    except OSError:
        pass
    r = sh(["cargo", "build", "--release", "--offline", "--manifest-path", os.path.join(REPO, "Cargo.toml"),
            "--target-dir", GRAM_TARGET] + feats, env=cargo_env(), stdout=subprocess.PIPE, stderr=subprocess.STDOUT, text=True)
    if r.returncode != 0:
        log(r.stdout[-4000:])
        raise ToolError("gram build failed")
    _built["gram"] = os.path.join(GRAM_TARGET, "release", "gram")
    return _built["gram"]


def gv(args, timeout=3600, check=True, env=None):
    build_harness()
    e = dict(os.environ)
    e.update({"MALLOC_TRIM_THRESHOLD_": "2000000000", "MALLOC_TOP_PAD_": "268435456", "MALLOC_MMAP_THRESHOLD_": "1073741824"})
    if env:
        e.update(env)
    r = sh([GV] + [str(a) for a in args], stdout=subprocess.PIPE, stderr=subprocess.PIPE, text=True, timeout=timeout, env=e)
    if check and r.returncode != 0:
        log(r.stderr[-3000:])
        raise ToolError("gv %s failed with exit %d" % (args[0], r.returncode))
    return r


# ---------------------------------------------------------------------------------------- TLC
def spec_closure(module):
    """module + everything it EXTENDS / INSTANCEs that lives in spec/ (for cache keys)"""
    seen, todo = [], [module]
    while todo:
        m = todo.pop()
        if m in seen:
            continue
        p = find_module(m)
        if not p:
            continue
        seen.append(m)
        txt = open(p).read()
        for line in re.findall(r"^\s*(?:EXTENDS|LOCAL INSTANCE|INSTANCE)\s+(.*)$", txt, re.M):
            for name in re.split(r"[,\s]+", line.strip()):
                if name and name not in ("WITH",):
                    todo.append(name)
    return sorted(seen)


def find_module(m):
    for d in (SPEC, os.path.join(WORK, "gen-spec")):
        p = os.path.join(d, m + ".tla")
        if os.path.exists(p):
            return p
    return None


def tlc(module, cfg, out, workers=12, timeout=3600, env=None, simulate=None, heap="12g", coverage=False, extra=None, depth_first=False):
    """Run TLC on spec/<module>.tla with config text `cfg`. Returns dict with stats. Output goes to file `out`."""
    os.makedirs(os.path.dirname(out), exist_ok=True)
    cfgp = out + ".cfg"
    open(cfgp, "w").write(cfg)
    meta = out + ".meta"
    shutil.rmtree(meta, ignore_errors=True)
    e = dict(os.environ)
    jopts = "-Xss1g"
    if depth_first:
        jopts += " -Dtlc2.tool.queue.IStateQueue=StateDeque"
    e["JAVA_TOOL_OPTIONS"] = jopts
    if env:
        e.update(env)
    gen_spec = os.path.join(WORK, "gen-spec")
    cmd = ["timeout", str(timeout), "java", "-XX:+UseParallelGC", "-Xmx" + heap,
           "-DTLA-Library=" + SPEC + os.pathsep + gen_spec,
           "-cp", TLC_JAR_CP, "tlc2.TLC",
           "-workers", str(workers), "-metadir", meta, "-cleanup", "-noGenerateSpecTE", "-config", cfgp]
    if coverage:
        cmd += ["-coverage", "1"]
    if simulate:
        cmd += ["-simulate", simulate]
    if extra:
        cmd += extra
    cmd += [find_module(module)]
    t0 = time.time()
    with open(out, "w") as f:
        r = sh(cmd, stdout=f, stderr=subprocess.STDOUT, env=e)
    wall = time.time() - t0
    shutil.rmtree(meta, ignore_errors=True)
    res = {"module": module, "exit": r.returncode, "wall_s": round(wall, 1), "out": out, "states": 0, "distinct": 0,
           "violated": None, "cmd": " ".join(cmd[2:])}
    tail = tail_text(out, 20000)
    m = re.findall(r"(\d+) states generated, (\d+) distinct states found", tail)
    if m:
        res["states"], res["distinct"] = int(m[-1][0]), int(m[-1][1])
    m = re.search(r"Invariant (\w+) is violated", tail) or re.search(r"Error: (Action property|Temporal properties) .*violated", tail)
    if m:
        res["violated"] = m.group(1)
    res["completed"] = "Model checking completed. No error has been found." in tail or (simulate is not None and r.returncode in (0,))
    if r.returncode == 124:
        raise ToolError("TLC timed out on %s after %ds" % (module, timeout))
    if r.returncode not in (0, 12, 13) or ("Parsing or semantic analysis failed" in tail):
        log(head_nontag(out, 60))
        raise ToolError("TLC failed on %s (exit %d), see %s" % (module, r.returncode, out))
    return res


def tail_text(path, n):
    with open(path, "rb") as f:
        f.seek(0, 2)
        size = f.tell()
        f.seek(max(0, size - n))
        return f.read().decode("utf-8", "replace")


def head_nontag(path, n):
    out = []
    with open(path, errors="replace") as f:
        for line in f:
            if not line.startswith("<<\""):
                out.append(line.rstrip())
    return "\n".join(out[-n:])


def count_tag(path, tag):
    pre = '<<"%s", ' % tag
    n = 0
    with open(path, errors="replace") as f:
        for line in f:
            if line.startswith(pre):
                n += 1
    return n


def parse_tlc_line(line, tag):
    pre = '<<"%s", ' % tag
    if not line.startswith(pre):
        return None
    lit = line.rstrip()[len(pre):-2]
    return json.loads(json.loads(lit))


def first_tag(path, tag, k=1, skip=0):
    pre = '<<"%s", ' % tag
    out = []
    with open(path, errors="replace") as f:
        for line in f:
            if line.startswith(pre):
                if skip > 0:
                    skip -= 1
                    continue
                out.append(parse_tlc_line(line, tag))
                if len(out) >= k:
                    break
    return out


def tlc_generate(module, cfg, name, workers=12, timeout=3600, heap="12g", env=None):
    """TLC generation run (behaviours depend only on the specification) cached under work/gen/<sha256>.
    `env`: files handed to the specification through IOEnv; their contents are part of the cache key."""
    h = hashlib.sha256()
    for m in spec_closure(module):
        h.update(open(find_module(m), "rb").read())
    h.update(cfg.encode())
    for k in sorted(env or {}):
        h.update(k.encode())
        h.update(open(env[k], "rb").read() if os.path.exists(env[k]) else env[k].encode())
    key = h.hexdigest()[:24]
    d = os.path.join(GENCACHE, name + "-" + key)
    out = os.path.join(d, "out.txt")
    statp = os.path.join(d, "stats.json")
    if os.path.exists(statp):
        st = json.load(open(statp))
        st["cached"] = True
        return st
    # generate into a private directory, then publish atomically (several checks may want the same run at once)
    os.makedirs(GENCACHE, exist_ok=True)
    tmp = d + ".tmp%d" % os.getpid()
    shutil.rmtree(tmp, ignore_errors=True)
    os.makedirs(tmp)
    st = tlc(module, cfg, os.path.join(tmp, "out.txt"), workers=workers, timeout=timeout, heap=heap, env=env)
    st["cached"] = False
    if st["violated"] or not st["completed"]:
        # a generation run whose invariants fail is a verdict about the specification itself
        return st
    st["out"] = out
    json.dump(st, open(os.path.join(tmp, "stats.json"), "w"))
    try:
        if os.path.exists(d) and not os.path.exists(statp):
            shutil.rmtree(d, ignore_errors=True)          # debris of an interrupted run
        if os.path.exists(d):
            shutil.rmtree(tmp, ignore_errors=True)
        else:
            os.rename(tmp, d)
    except OSError:
        shutil.rmtree(tmp, ignore_errors=True)
    if not os.path.exists(statp):
        raise ToolError("could not publish the generation run " + d)
    return st


# ---------------------------------------------------------------------------------------- trace validation
TRACE_CFG = "SPECIFICATION TSpec\nPOSTCONDITION TraceAccepted\nCHECK_DEADLOCK FALSE\n"


def validate_trace(module, trace_path, name, chunk_events=1500, par=8, timeout=1800, consts=""):
    """Split an ndjson trace into chunks, validate each with TLC (-workers 1, depth-first queue).
    Returns dict(events, chunks, accepted_chunks, rejects=[{chunk,line,event,what}])."""
    lines = [l for l in open(trace_path) if l.strip()]
    d = os.path.join(WORK, "trace", name)
    shutil.rmtree(d, ignore_errors=True)
    os.makedirs(d)
    chunks = []
    for i in range(0, len(lines), chunk_events):
        p = os.path.join(d, "chunk%03d.ndjson" % (i // chunk_events))
        open(p, "w").writelines(lines[i:i + chunk_events])
        chunks.append((p, i, lines[i:i + chunk_events]))
    procs, results = [], []
    cfg = consts + TRACE_CFG
    pending = list(chunks)
    running = []
    res = {"events": len(lines), "chunks": len(chunks), "accepted_chunks": 0, "rejects": [], "states": 0, "wall_s": 0, "notes": 0}
    t0 = time.time()

    def launch(ch):
        p, base, ls = ch
        out = p + ".out"
        cfgp = p + ".cfg"
        open(cfgp, "w").write(cfg)
        e = dict(os.environ)
        e["JAVA_TOOL_OPTIONS"] = "-Xss1g -Dtlc2.tool.queue.IStateQueue=StateDeque"
        e["TRACE"] = p
        cmd = ["timeout", str(timeout), "java", "-XX:+UseParallelGC", "-Xmx3g", "-DTLA-Library=" + SPEC + os.pathsep + os.path.join(WORK, "gen-spec"),
               "-cp", TLC_JAR_CP, "tlc2.TLC", "-workers", "1", "-metadir", p + ".meta", "-cleanup", "-noGenerateSpecTE",
               "-config", cfgp, find_module(module)]
        f = open(out, "w")
        return (subprocess.Popen(cmd, stdout=f, stderr=subprocess.STDOUT, env=e), ch, out, f)

    while pending or running:
        while pending and len(running) < par:
            running.append(launch(pending.pop(0)))
        time.sleep(0.05)
        for it in list(running):
            pr, ch, out, f = it
            if pr.poll() is None:
                continue
            running.remove(it)
            f.close()
            shutil.rmtree(ch[0] + ".meta", ignore_errors=True)
            txt = open(out, errors="replace").read()
            m = re.findall(r"(\d+) states generated", txt)
            if m:
                res["states"] += int(m[-1])
            if pr.returncode == 124:
                raise ToolError("trace validation timed out on " + ch[0])
            flat = re.sub(r"\s+", " ", txt)
            res["notes"] += flat.count('"TRACE-NOTE"')
            rejs = re.findall(r'<< ?"TRACE-REJECT", (\d+), (.*?)>> TRUE', flat)
            stopped = re.search(r'<<"TRACE-STOPPED-AT", (\d+)>>', txt)
            res["discarded"] = res.get("discarded", 0) + len(re.findall(r'"[A-Z]+-DISCARDED"', txt))
            okrun = "Model checking completed. No error has been found." in txt
            if okrun and not rejs and not stopped:
                res["accepted_chunks"] += 1
            elif rejs or stopped:
                for ln, what in rejs:
                    ln = int(ln)
                    ev = json.loads(ch[2][ln - 1]) if 1 <= ln <= len(ch[2]) else None
                    res["rejects"].append({"chunk": ch[0], "line": ch[1] + ln, "what": what.strip(), "event": ev})
                if stopped and not rejs:
                    ln = int(stopped.group(1))
                    ev = json.loads(ch[2][ln - 1]) if 1 <= ln <= len(ch[2]) else None
                    res["rejects"].append({"chunk": ch[0], "line": ch[1] + ln, "what": "no action of the trace specification matches", "event": ev})
            else:
                log(head_nontag(out, 40))
                raise ToolError("TLC failed while validating " + ch[0])
    res["wall_s"] = round(time.time() - t0, 1)
    res["rejects"].sort(key=lambda r: r["line"])
    return res


# ---------------------------------------------------------------------------------------- known findings
def load_findings():
    p = os.path.join(VERIF, "known_findings.json")
    if not os.path.exists(p):
        return {"findings": [], "fixed": []}
    return json.load(open(p))


# ---------------------------------------------------------------------------------------- check context
class Check:
    def __init__(self, pid, tier, seed, level="model_checking"):
        self.pid, self.tier, self.seed, self.level = pid, tier, seed, level
        self.t0 = time.time()
        self.cov = {"states": 0, "transitions": 0, "traces_validated_against_impl": 0, "samples": [], "tlc_runs": [],
                    "replayed_cases": 0, "trace_events": 0, "bounds": {}, "probes": [], "inconclusive": 0}
        self.assumptions = []
        self.violations = []  # (what, replay_obj)
        self.known = []
        self.probe_failures = []
        self.quick = tier == "quick"

    def add_tlc(self, st, role):
        self.cov["states"] += st.get("distinct", 0)
        self.cov["transitions"] += st.get("states", 0)
        self.cov["tlc_runs"].append({"module": st["module"], "role": role, "states_generated": st["states"], "distinct": st["distinct"],
                                     "wall_s": st["wall_s"], "cached": st.get("cached", False)})

    def add_trace(self, tv, role):
        self.cov["states"] += tv["states"]
        self.cov["transitions"] += tv["states"]
        self.cov["trace_events"] += tv["events"]
        self.cov["traces_validated_against_impl"] += tv["accepted_chunks"]
        self.cov["tlc_runs"].append({"module": role, "role": "trace validation", "events": tv["events"], "chunks": tv["chunks"],
                                     "accepted_chunks": tv["accepted_chunks"], "wall_s": tv["wall_s"]})

    def sample(self, s):
        if len(self.cov["samples"]) < 8:
            self.cov["samples"].append(s)

    def spec_violation(self, st, what):
        """an invariant of the specification itself failed in a model-checking run"""
        self.violate("%s: TLC reports %s violated in %s" % (what, st["violated"], st["module"]),
                     {"kind": "model-level", "module": st["module"], "invariant": st["violated"], "tlc_output_tail": tail_text(st["out"], 6000)})

    def violate(self, what, replay):
        self.violations.append((what, replay))

    def probe(self, name, detected):
        self.cov["probes"].append({"probe": name, "detected": bool(detected)})
        if not detected:
            self.probe_failures.append(name)

    def finish(self):
        os.makedirs(os.path.join(EVID, "replays"), exist_ok=True)
        kf = load_findings()
        real = []
        for what, replay in self.violations:
            hit = None
            for f in kf.get("findings", []):
                if f["property"] == self.pid and finding_matches(f, replay):
                    hit = f
                    break
            if hit:
                self.known.append((hit, what))
            else:
                real.append((what, replay))
        ev = {"property_id": self.pid, "tier": self.tier, "seed": self.seed, "level": self.level, "coverage": self.cov,
              "assumptions": self.assumptions, "wall_s": round(time.time() - self.t0, 1), "violations": len(real)}
        self.cov["known_findings_hit"] = sorted({h["id"] for h, _ in self.known})
        if self.level == "other":
            self.cov.setdefault("explanation", "")
        if not self.cov["samples"]:
            self.cov["samples"] = ["(no sample recorded)"]
        json.dump(ev, open(os.path.join(EVID, self.pid + ".json"), "w"), indent=1, sort_keys=True)
        seen = set()
        for h, what in self.known:
            if h["id"] in seen:
                continue
            seen.add(h["id"])
            n = sum(1 for hh, _ in self.known if hh["id"] == h["id"])
            print("KNOWN-FINDING: property=%s %s (%s; %d observation(s) this run)" % (self.pid, h["id"], h["what"], n))
        if real:
            for i, (what, replay) in enumerate(real[:5]):
                p = os.path.join(EVID, "replays", "%s-%d.json" % (self.pid, i + 1))
                json.dump({"property": self.pid, "what": what, "replay": replay}, open(p, "w"), indent=1)
                print("VIOLATION property=%s replay=%s" % (self.pid, p))
                log(what)
            log("%d violation(s) in total" % len(real))
            return 1
        if self.probe_failures:
            # a check that cannot see a planted corruption proves nothing: tool error, never a pass
            raise ToolError("sensitivity probe(s) NOT detected: %s -- the binding is broken" % "; ".join(self.probe_failures))
        log("%s %s: ok in %.0fs (states=%d, replayed=%d, trace events=%d)" % (self.pid, self.tier, time.time() - self.t0,
            self.cov["states"], self.cov["replayed_cases"], self.cov["trace_events"]))
        return 0


def finding_matches(f, replay):
    """A known finding matches only its own signature: all key/value pairs of f['match'] must be present in the
    violation's replay object (values compared exactly; a list value means 'one of')."""
    m = f.get("match")
    if not m or not isinstance(replay, dict):
        return False
    for k, v in m.items():
        got = replay.get(k)
        if isinstance(v, list):
            if got not in v:
                return False
        elif got != v:
            return False
    return True


def cfg_consts(**kw):
    def val(v):
        if isinstance(v, bool):
            return "TRUE" if v else "FALSE"
        if isinstance(v, int):
            return str(v)
        if isinstance(v, str):
            return v if v.startswith("<-") else '"%s"' % v
        if isinstance(v, (set, frozenset, list, tuple)):
            return "{" + ", ".join(val(x) for x in sorted(v, key=str)) + "}"
        raise ValueError(v)
    parts = []
    for k, v in kw.items():
        if isinstance(v, str) and v.startswith("<-"):
            parts.append("  %s %s" % (k, v))
        else:
            parts.append("  %s = %s" % (k, val(v)))
    return "CONSTANTS\n" + "\n".join(parts) + "\n"
