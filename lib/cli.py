"""Launching the gram binary built from /repo's working tree; one 'cli' event per launch."""
import hashlib, json, os, subprocess
from concurrent.futures import ThreadPoolExecutor
import vf


def _cpu_seconds(pid):
    try:
        f = open("/proc/%d/stat" % pid).read().rsplit(")", 1)[1].split()
        return (int(f[11]) + int(f[12])) / 100.0
    except Exception:
        return 0.0


def launch(gram, cmd, path, timeout=20, retry=True):
    """one launch; the limit is on the CPU time the process has consumed (a saturated machine must not turn a slow launch
    into a hang), with the wall clock as a 30x backstop.  -999 = did not finish."""
    import tempfile, time
    with tempfile.TemporaryFile() as fo, tempfile.TemporaryFile() as fe:
        p = subprocess.Popen([gram, cmd, path], stdout=fo, stderr=fe)
        t0 = time.time()
        rc = None
        while True:
            try:
                rc = p.wait(timeout=0.05)
                break
            except subprocess.TimeoutExpired:
                if _cpu_seconds(p.pid) > timeout or time.time() - t0 > timeout * 30:
                    p.kill()
                    p.wait()
                    rc = -999
                    break
        fo.seek(0)
        fe.seek(0)
        return rc, fo.read(), fe.read()


def event(fid, cmd, rc, out, err, divergent=False):
    h = lambda b: hashlib.sha256(b).hexdigest()[:16]
    return {"ev": "cli", "file": fid, "cmd": cmd, "exit": rc, "out": h(out), "err": h(err), "outlen": len(out), "errlen": len(err),
            "nerr": err.count(b"[Error]"), "stuck": b"is stuck!" in err, "divergent": divergent}


def run_files(files, cmds, launches, out_path, divergent=()):
    """files: list of (id, path). Returns list of events (also written as ndjson)."""
    gram = vf.build_gram()
    jobs = [(fid, p, cmd, k) for fid, p in files for cmd in cmds for k in range(launches)]
    with ThreadPoolExecutor(max_workers=14) as ex:
        res = list(ex.map(lambda j: (j, launch(gram, j[2], j[1], retry=j[0] not in divergent)), jobs))
    evs = [event(fid, cmd, rc, out, err, fid in divergent) for (fid, p, cmd, k), (rc, out, err) in res]
    with open(out_path, "w") as f:
        for e in evs:
            f.write(json.dumps(e) + "\n")
    return evs, res


def run_arg_forms(d, out_path):
    """every form of invocation on files of every class (spec/GramCli.tla); one 'cliargs' event per launch"""
    gram = vf.build_gram()
    os.makedirs(d, exist_ok=True)
    classes = {  # key -> (file, front, run, content)
        "lex": ("ok", "lex", "value", b"x = 1 $ 2\nx\n"), "parse": ("ok", "parse", "value", b"(1 + \n"), "type": ("ok", "type", "value", b"1 + true\n"),
        "value": ("ok", "ok", "value", b"f = (x : int) => x + 1\nf 41\n"), "stuck": ("ok", "ok", "stuck", b"1 / 0\n"),
        "badutf8": ("badutf8", "ok", "value", b"x = 1\n\xff\xfe\nx\n"), "missing": ("missing", "ok", "value", None), "dir": ("dir", "ok", "value", None),
    }
    paths = {}
    for k, (file, front, run, content) in classes.items():
        p = os.path.join(d, "args-%s.g" % k)
        if k == "dir":
            os.makedirs(p, exist_ok=True)
        elif k == "missing":
            if os.path.exists(p):
                os.remove(p)
        else:
            open(p, "wb").write(content)
        paths[k] = p
    jobs = []
    for k, (file, front, run, _) in classes.items():
        for form, argv in (("path", [paths[k]]), ("check", ["check", paths[k]]), ("run", ["run", paths[k]]), ("extra", ["check", paths[k], "extra"])):
            jobs.append((form, k, file, front, run, argv))
    for form, argv in (("none", []), ("check-nopath", ["check"]), ("run-nopath", ["run"]), ("badflag", ["--frobnicate"]), ("version", ["--version"]), ("version", ["-v"]),
                       ("help", ["--help"]), ("help", ["help"]), ("completion", ["shell-completion", "bash"]), ("completion", ["shell-completion", "ZSH"]),
                       ("completion-bad", ["shell-completion", "nosuchshell"]), ("completion-bad", ["shell-completion"])):
        jobs.append((form, "-", "ok", "ok", "value", argv))
    h = lambda b: hashlib.sha256(b).hexdigest()[:16]
    evs = []
    for form, k, file, front, run, argv in jobs:
        r = subprocess.run([gram] + argv, stdout=subprocess.PIPE, stderr=subprocess.PIPE, timeout=600)
        evs.append({"ev": "cliargs", "form": form, "key": k, "file": file, "front": front, "run": run, "exit": r.returncode, "out": h(r.stdout), "err": h(r.stderr),
                    "outlen": len(r.stdout), "errlen": len(r.stderr), "nerr": r.stderr.count(b"[Error]"), "argv": " ".join(a if not a.startswith(d) else os.path.basename(a) for a in argv)})
    with open(out_path, "w") as f:
        for e in evs:
            f.write(json.dumps(e) + "\n")
    return evs
