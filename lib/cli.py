"""Launching the gram binary built from /repo's working tree; one 'cli' event per launch."""
import hashlib, json, os, subprocess
from concurrent.futures import ThreadPoolExecutor
import vf


def _cpu_seconds(pid):
    try:
        f = open("/proc/%d/stat" % pid).read().rsplit(")", 1)[1].split()
        return (int(f[11]) + int(f[12])) / 100.0
    except Exception:
        return 0.0


def launch(gram, cmd, path, timeout=20, retry=True):
    """one launch; the limit is on the CPU time the process has consumed (a saturated machine must not turn a slow launch
    into a hang), with the wall clock as a 30x backstop.  -999 = did not finish."""
    import tempfile, time
    with tempfile.TemporaryFile() as fo, tempfile.TemporaryFile() as fe:
        p = subprocess.Popen([gram, cmd, path], stdout=fo, stderr=fe)
        t0 = time.time()
        rc = None
        while True:
            try:
                rc = p.wait(timeout=0.05)
                break
            except subprocess.TimeoutExpired:
                if _cpu_seconds(p.pid) > timeout or time.time() - t0 > timeout * 30:
                    p.kill()
                    p.wait()
                    rc = -999
                    break
        fo.seek(0)
        fe.seek(0)
        return rc, fo.read(), fe.read()


def event(fid, cmd, rc, out, err, divergent=False):
    h = lambda b: hashlib.sha256(b).hexdigest()[:16]
    return {"ev": "cli", "file": fid, "cmd": cmd, "exit": rc, "out": h(out), "err": h(err), "outlen": len(out), "errlen": len(err),
            "nerr": err.count(b"[Error]"), "stuck": b"is stuck!" in err, "divergent": divergent}


def run_files(files, cmds, launches, out_path, divergent=()):
    """files: list of (id, path). Returns list of events (also written as ndjson)."""
    gram = vf.build_gram()
    jobs = [(fid, p, cmd, k) for fid, p in files for cmd in cmds for k in range(launches)]
    with ThreadPoolExecutor(max_workers=14) as ex:
        res = list(ex.map(lambda j: (j, launch(gram, j[2], j[1], retry=j[0] not in divergent)), jobs))
    evs = [event(fid, cmd, rc, out, err, fid in divergent) for (fid, p, cmd, k), (rc, out, err) in res]
    with open(out_path, "w") as f:
        for e in evs:
            f.write(json.dumps(e) + "\n")
    return evs, res
