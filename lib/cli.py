"""Launching the gram binary built from /repo's working tree; one 'cli' event per launch."""
import hashlib, json, os, subprocess
from concurrent.futures import ThreadPoolExecutor
import vf


def launch(gram, cmd, path, timeout=30, retry=True):
    # a launch that does not finish is tried once more with a much longer limit: on a saturated machine a slow launch must not
    # be mistaken for a hang (-999 is reported only when the second, long, attempt does not finish either)
    for limit in ((timeout, timeout * 20) if retry else (timeout,)):
        try:
            r = subprocess.run([gram, cmd, path], stdout=subprocess.PIPE, stderr=subprocess.PIPE, timeout=limit)
            return r.returncode, r.stdout, r.stderr
        except subprocess.TimeoutExpired as e:
            last = e
    return -999, last.stdout or b"", last.stderr or b""


def event(fid, cmd, rc, out, err, divergent=False):
    h = lambda b: hashlib.sha256(b).hexdigest()[:16]
    return {"ev": "cli", "file": fid, "cmd": cmd, "exit": rc, "out": h(out), "err": h(err), "outlen": len(out), "errlen": len(err),
            "nerr": err.count(b"[Error]"), "stuck": b"is stuck!" in err, "divergent": divergent}


def run_files(files, cmds, launches, out_path, divergent=()):
    """files: list of (id, path). Returns list of events (also written as ndjson)."""
    gram = vf.build_gram()
    jobs = [(fid, p, cmd, k) for fid, p in files for cmd in cmds for k in range(launches)]
    with ThreadPoolExecutor(max_workers=14) as ex:
        res = list(ex.map(lambda j: (j, launch(gram, j[2], j[1], retry=j[0] not in divergent)), jobs))
    evs = [event(fid, cmd, rc, out, err, fid in divergent) for (fid, p, cmd, k), (rc, out, err) in res]
    with open(out_path, "w") as f:
        for e in evs:
            f.write(json.dumps(e) + "\n")
    return evs, res
