#!/usr/bin/env python3
"""Copies the sub-agents' seeded changes into /verif/seeded/<ID>-<k>/ (patch.diff, demonstration, meta.json) and records which of
our checks detected them (from the result files written by tools/seedtest.sh runs).  Usage: keepseeds.py <seedout-dir> <results...>"""
import glob, json, os, re, shutil, sys

V = os.path.dirname(os.path.dirname(os.path.abspath(__file__)))
src = sys.argv[1]
results = {}
for rf in sys.argv[2:]:
    for line in open(rf, errors="replace"):
        m = re.match(r"RESULT (\S+)/(C\d+)/(\d) check=(C\d+) exit=(\d+) violations=(\d+)", line)
        if m:
            _, pid, k, chk, ex, vio = m.groups()
            results.setdefault((pid, k), {})[chk] = {"exit": int(ex), "violations": int(vio)}      # later files win
rows = []
for d in sorted(glob.glob(os.path.join(src, "C[0-9][0-9]", "[0-9]"))):
    pid, k = d.split("/")[-2], d.split("/")[-1]
    if not os.path.exists(os.path.join(d, "patch.diff")):
        continue
    dst = os.path.join(V, "seeded", "%s-%s" % (pid, k))
    os.makedirs(dst, exist_ok=True)
    for f in os.listdir(d):
        if f.startswith(("patch.diff", "demo", "meta.json")) and os.path.getsize(os.path.join(d, f)) < 200000:
            shutil.copy(os.path.join(d, f), os.path.join(dst, f))
    meta = {}
    try:
        meta = json.load(open(os.path.join(d, "meta.json")))
    except Exception:
        pass
    res = results.get((pid, k), {})
    det = sorted(c for c, r in res.items() if r["exit"] == 1)
    meta.update({"breaks_property": pid, "our_runs": res, "detected_by": det,
                 "confirmed": "patch applied to a scratch copy of /repo HEAD by tools/seedtest.sh; cargo test --offline passed 450/450 there; then the named checks were run against the copy"})
    json.dump(meta, open(os.path.join(dst, "meta.json"), "w"), indent=1)
    rows.append((pid, k, (meta.get("summary") or "")[:150].replace("\n", " ").replace("|", "/"), ", ".join("%s:%s" % (c, "DETECTED" if r["exit"] == 1 else "tool-error" if r["exit"] == 2 else "missed") for c, r in sorted(res.items())) or "not run"))
print("| seed | change | result |\n|---|---|---|")
for pid, k, summ, r in rows:
    print("| %s-%s | %s | %s |" % (pid, k, summ, r))
