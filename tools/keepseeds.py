#!/usr/bin/env python3
"""Copies the sub-agents' seeded changes into /verif/seeded/<ID>-<round><k>/ (patch.diff, demonstration, meta.json) and records
which of our checks detected them (from the result files written by tools/seedtest.sh runs).
Usage: keepseeds.py <round>=<seedout-dir> [<round>=<dir> ...] -- <result files...>      (later result lines win)"""
import glob, json, os, re, shutil, sys

V = os.path.dirname(os.path.dirname(os.path.abspath(__file__)))
args = sys.argv[1:]
cut = args.index("--")
rounds = dict(a.split("=", 1) for a in args[:cut])
results = {}
for rf in args[cut + 1:]:
    for line in open(rf, errors="replace"):
        m = re.match(r"RESULT (\S+)/(C\d+)/(\d) check=(C\d+) exit=(\d+) violations=(\d+)", line)
        if m:
            base, pid, k, chk, ex, vio = m.groups()
            results.setdefault((os.path.realpath(base), pid, k), {})[chk] = {"exit": int(ex), "violations": int(vio)}
rows = []
for rnd, src in sorted(rounds.items()):
    for d in sorted(glob.glob(os.path.join(src, "C[0-9][0-9]", "[0-9]"))):
        pid, k = d.split("/")[-2], d.split("/")[-1]
        if not os.path.exists(os.path.join(d, "patch.diff")):
            continue
        name = "%s-%s%s" % (pid, rnd, k)
        dst = os.path.join(V, "seeded", name)
        os.makedirs(dst, exist_ok=True)
        for f in os.listdir(d):
            if f.startswith(("patch.diff", "demo", "meta.json")) and os.path.isfile(os.path.join(d, f)) and os.path.getsize(os.path.join(d, f)) < 200000:
                shutil.copy(os.path.join(d, f), os.path.join(dst, f))
        meta = {}
        try:
            meta = json.load(open(os.path.join(d, "meta.json")))
        except Exception:
            pass
        res = results.get((os.path.realpath(src), pid, k), {})
        det = sorted(c for c, r in res.items() if r["exit"] == 1)
        meta.update({"breaks_property": pid, "round": rnd, "our_runs": res, "detected_by": det,
                     "confirmed": "patch applied to a scratch copy of /repo HEAD by tools/seedtest.sh; cargo test --offline passed 450/450 there; then the named checks were run against the copy"})
        json.dump(meta, open(os.path.join(dst, "meta.json"), "w"), indent=1)
        summ = (meta.get("summary") or "")
        if not isinstance(summ, str):
            summ = json.dumps(summ)
        rows.append((name, summ[:170].replace("\n", " ").replace("|", "/"), ", ".join("%s: %s" % (c, "DETECTED" if r["exit"] == 1 else "tool-error" if r["exit"] == 2 else "missed") for c, r in sorted(res.items())) or "not run"))
print("| seed | change | quick check(s) run on the changed tree |\n|---|---|---|")
for name, summ, r in rows:
    print("| %s | %s | %s |" % (name, summ, r))
