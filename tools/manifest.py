#!/usr/bin/env python3
"""Regenerates /verif/MANIFEST.json from the table below (so it stays schema-valid) and validates it and every
evidence file against the schemas in /root/.vp when those are present."""
import json, os, sys
V = os.path.dirname(os.path.dirname(os.path.abspath(__file__)))
sys.path.insert(0, os.path.join(V, "tools"))
from manifest_table import CHECKS, NOT_APPLICABLE, HOOK_COMMITS

ids = [json.loads(l)["id"] for l in open(os.path.join(V, "properties.jsonl"))]
checks = []
for pid in ids:
    if pid not in CHECKS:
        continue
    c = CHECKS[pid]
    checks.append({
        "property_id": pid,
        "quick_cmd": "bin/check %s --tier quick" % pid,
        "thorough_cmd": "bin/check %s --tier thorough" % pid,
        "evidence_file": "/verif/evidence/%s.json" % pid,
        "replay_cmd_template": "bin/check %s --replay {path}" % pid,
        "engine": "tla-spec",
        "level_claimed": {"category": c["level"], "text": c["text"], "design_ref": c["design_ref"]},
        "level_note": c["note"],
        "technique": c["technique"],
    })
na = [{"property_id": p, "reason": NOT_APPLICABLE[p]} for p in ids if p not in CHECKS]
m = {
    "version": 1,
    "setup_cmd": "bin/setup",
    "hooks": {
        "guard": "cargo feature `verif`",
        "enable": "the harness is built with `cargo build --release --offline --features verif`; its build.rs #[path]-includes /repo/src/*.rs, so every hook guarded by #[cfg(feature = \"verif\")] is compiled in; the gram binary is built with --features verif as well",
        "baseline_off_cmd": "cd /repo && cargo test --workspace --no-fail-fast --offline",
        "source_commits": HOOK_COMMITS,
        "add_only": True,
    },
    "engines": [{"name": "tla-spec", "path": "/verif/spec", "serves_properties": [c["property_id"] for c in checks],
                 "kind_free_text": "explicit TLA+ specification of the gram pipeline (spec/*.tla) checked with TLC; bound to the code by replaying TLC-generated behaviours into the real functions (harness/, Rust, compiled from /repo/src) and by validating traces recorded from the real functions with TLC trace specifications (spec/Trace_*.tla); orchestrated by bin/check"}],
    "checks": checks,
    "not_applicable": na,
    "notes": "See DESIGN.md. Exit 2 from a check means tool error (build failure, TLC timeout, failed sensitivity probe), never a verdict.",
}
json.dump(m, open(os.path.join(V, "MANIFEST.json"), "w"), indent=1)
try:
    import jsonschema
    ms = json.load(open("/root/.vp/MANIFEST.schema.json"))
    jsonschema.validate(m, ms)
    es = json.load(open("/root/.vp/EVIDENCE.schema.json"))
    for c in checks:
        p = c["evidence_file"]
        if os.path.exists(p):
            jsonschema.validate(json.load(open(p)), es)
        else:
            print("missing evidence", p)
    print("MANIFEST ok: %d checks, %d not_applicable" % (len(checks), len(na)))
except ImportError:
    print("jsonschema not available; MANIFEST written unvalidated")
