#!/bin/bash
# tools/seedunify.sh <seed-dir with patch.diff> <tlc PAIR output> : development aid -- the real unify of a seeded change on generated pairs, judged by Trace_Unify
set -u
sd="$(readlink -f "$1")"; pairs="$(readlink -f "$2")"
d=$(mktemp -d /tmp/su.XXXXXX)
trap 'rm -rf "$d"' EXIT
mkdir -p "$d/repo"
(cd /repo && git archive HEAD | tar -x -C "$d/repo")
cd "$d/repo" && git init -q . && git apply --whitespace=nowarn "$sd/patch.diff" || { echo APPLY-FAILED; exit 3; }
cd /verif/harness && GRAM_SRC="$d/repo/src" CARGO_NET_OFFLINE=true cargo build --release --offline --features verif --target-dir "$d/target" > "$d/build.log" 2>&1 || { tail -20 "$d/build.log"; exit 4; }
"$d/target/release/gv" record-unify "$pairs" "$d/ev.ndjson" "$d/sum.json"
VERIF_WORK="$d/work" python3 - "$d/ev.ndjson" <<'PY'
import sys, json, collections, re
sys.path.insert(0,'/verif/lib')
import vf, os, shutil
os.makedirs(vf.WORK, exist_ok=True)
if not os.path.exists(os.path.join(vf.WORK, "gen-spec")):
    shutil.copytree("/verif/work/gen-spec", os.path.join(vf.WORK, "gen-spec"))
tv = vf.validate_trace("Trace_Unify", sys.argv[1], "su", chunk_events=700, par=12)
c=collections.Counter()
real=[]
for r in tv['rejects']:
    ev=r['event'] or {}
    known = (ev.get('holes_opened') or 0) > 0 and re.search(r'"modulo_unsolved", TRUE', r['what'])
    c[(bool(known), r['what'][:110])]+=1
    if not known: real.append(r)
print("events", tv['events'], "rejects", len(tv['rejects']), "not attributable to the recorded finding", len(real))
for k,v in c.most_common(8): print(v,k)
for r in real[:2]: print(json.dumps(r['event'])[:700])
PY
