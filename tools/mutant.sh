#!/bin/sh
# tools/mutant.sh <patch.diff> <check-id>... : development-time self-test.  Applies the patch to a scratch copy of
# /repo (outside /repo and /verif), runs the named checks against the copy, removes the copy.
set -e
patch="$(readlink -f "$1")"; shift
d=$(mktemp -d /tmp/gm.XXXXXX)
trap 'rm -rf "$d"' EXIT
mkdir -p "$d/repo"
(cd /repo && git ls-files -z | xargs -0 cp --parents -t "$d/repo")
(cd "$d/repo" && git init -q . 2>/dev/null && git apply --whitespace=nowarn "$patch")
for id in "$@"; do
  echo "== $id on mutant $(basename "$patch")"
  GRAM_REPO="$d/repo" VERIF_WORK="$d/work" VERIF_EVID="$d/evidence" /verif/bin/check "$id" --tier "${TIER:-quick}" || echo "exit=$?"
done
