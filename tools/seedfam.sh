#!/bin/bash
# tools/seedfam.sh <seed-dir with patch.diff> <programs.jsonl> : development aid -- apply a seeded change to a scratch copy of /repo's HEAD,
# build the harness against it, run the given generated programs through the changed pipeline and let TLC (Trace_Pipeline) judge them.
set -u
sd="$(readlink -f "$1")"; progs="$(readlink -f "$2")"
d=$(mktemp -d /tmp/sf.XXXXXX)
trap 'rm -rf "$d"' EXIT
mkdir -p "$d/repo"
(cd /repo && git archive HEAD | tar -x -C "$d/repo")
cd "$d/repo" && git init -q . && git apply --whitespace=nowarn "$sd/patch.diff" || { echo APPLY-FAILED; exit 3; }
cd /verif/harness && GRAM_SRC="$d/repo/src" CARGO_NET_OFFLINE=true cargo build --release --offline --features verif --target-dir "$d/target" > "$d/build.log" 2>&1 || { tail -20 "$d/build.log"; exit 4; }
"$d/target/release/gv" record-pipeline "$progs" "$d/out.json" "$d/ev.ndjson" 400 0
VERIF_WORK="$d/work" python3 - "$d/ev.ndjson" <<'PY'
import sys, json, collections
sys.path.insert(0,'/verif/lib')
import vf, os
os.makedirs(vf.WORK, exist_ok=True)
import shutil
if not os.path.exists(os.path.join(vf.WORK, "gen-spec")):
    shutil.copytree("/verif/work/gen-spec", os.path.join(vf.WORK, "gen-spec"))
tv = vf.validate_trace("Trace_Pipeline", sys.argv[1], "sf", chunk_events=150, par=12)
c=collections.Counter()
for r in tv['rejects']:
    ev=r['event'] or {}
    c[(ev.get('origin'), r['what'][:70])]+=1
print("events", tv['events'], "rejects", len(tv['rejects']))
for k,v in c.most_common(12): print(v,k)
for r in tv['rejects'][:3]: print(r['what'][:160], '|', (r['event'] or {}).get('text','')[:160])
PY
