#!/usr/bin/env python3
"""Replaces the block between the SEEDED-MATRIX markers of DESIGN.md by the table on stdin (output of tools/keepseeds.py)."""
import os, sys
V = os.path.dirname(os.path.dirname(os.path.abspath(__file__)))
p = os.path.join(V, "DESIGN.md")
s = open(p).read()
b, e = "<!-- SEEDED-MATRIX-BEGIN -->", "<!-- SEEDED-MATRIX-END -->"
i, j = s.index(b) + len(b), s.index(e)
open(p, "w").write(s[:i] + "\n" + sys.stdin.read().strip() + "\n" + s[j:])
