#!/bin/bash
# tools/seedtest.sh <seed-dir containing patch.diff> <check-id>... : apply a seeded change to a scratch copy of /repo's
# HEAD (never to /repo itself), confirm it still builds and passes the 450 tests, then run the given checks on it.
set -u
sd="$(readlink -f "$1")"; shift
d=$(mktemp -d /tmp/gs.XXXXXX)
trap 'rm -rf "$d"' EXIT
mkdir -p "$d/repo"
(cd /repo && git archive HEAD | tar -x -C "$d/repo")
cd "$d/repo"
if ! (git init -q . && git apply --whitespace=nowarn "$sd/patch.diff" 2>/dev/null || patch -p1 -F3 -s < "$sd/patch.diff"); then echo "RESULT $sd APPLY-FAILED"; exit 3; fi
if ! CARGO_TARGET_DIR="$d/t" cargo test --offline > "$d/test.log" 2>&1; then echo "RESULT $sd TESTS-FAIL"; tail -5 "$d/test.log"; exit 4; fi
echo "tests: $(grep 'test result' "$d/test.log" | head -1)"
rm -rf "$d/t"
for id in "$@"; do
  GRAM_REPO="$d/repo" VERIF_WORK="$d/work" VERIF_EVID="$d/evidence" /verif/bin/check "$id" --tier "${TIER:-quick}" > "$d/out.$id" 2>&1; rc=$?
  n=$(grep -c '^VIOLATION' "$d/out.$id")
  echo "RESULT $sd check=$id exit=$rc violations=$n"
  grep -m2 '^\[check\] .*' "$d/out.$id" | grep -v "harness built" | head -2
  if [ "$rc" = 2 ]; then tail -5 "$d/out.$id"; fi
  if [ -n "${KEEP:-}" ]; then mkdir -p "$KEEP"; cp "$d/out.$id" "$KEEP/out.$id"; cp -r "$d/evidence" "$KEEP/" 2>/dev/null; cp "$d"/work/pipe/*-gen.ndjson "$KEEP/" 2>/dev/null; fi
done
