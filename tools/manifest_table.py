HOOK_COMMITS = []
MB = "model-based verification: explicit TLA+ specification checked by TLC; "
CHECKS = {
 "C11": dict(level="model_checking", design_ref="DESIGN.md section 4, C11",
   text="TLC checks the statement's algebraic laws and agreement with a named-term reference semantics on every hole-free term up to the size bound (all formers incl. 2/3-definition groups), then every prescribed shift/open/free-variable result is replayed into the real functions; random large terms are judged by a TLC trace specification. Exhaustive inside the bound, randomised beyond it.",
   note="Trusted: spec/GramTerm.tla + spec/GramNamed.tla as the meaning of capture-avoiding substitution; TLC; the harness's Term<->JSON projection. Bounded: size <= 5 (quick) / 7 (thorough), cutoffs 0..2, amounts -2..2.",
   technique=MB + "bounded-exhaustive replay of TLC-generated behaviours into de_bruijn.rs + TLC trace validation of recorded calls"),
 "C09": dict(level="model_checking", design_ref="DESIGN.md section 4, C09",
   text="The tokenizer is specified as a character-level state machine (spec/GramLexer.tla) that TLC checks against the declarative statement of the property (Partition, MaximalMunch, KeywordsWholeWord, LiteralShape, EveryBadSymbolReported) on all texts up to the length bound over five focused alphabets; every text with its prescribed tokens / error ranges is replayed into the real tokenize(); random Unicode texts are judged by a TLC trace specification (machine equality, the declarative predicates on the observation, literal values recomputed with exact limb arithmetic).",
   note="Trusted: the declarative predicates as the reading of the statement; Unicode classes and grapheme boundaries as computed by Rust's char methods / unicode-segmentation in the harness; error ranges are read back from the coloured diagnostic. Bounded: length <= 5 (quick) / 6 (thorough) per alphabet; random texts to 400 / 2000 characters.",
   technique=MB + "bounded-exhaustive replay of TLC-generated texts into tokenizer.rs + TLC trace validation of recorded tokenizations"),
 "C10": dict(level="model_checking", design_ref="DESIGN.md section 4, C10",
   text="TLC checks on the lexer specification that the two 28-way line-break tables are equivalent to the one-sentence rule of the statement and that dropping comments, padding blanks, repeating line breaks and exchanging a separating line break with `;` leave the token stream unchanged (all texts up to the bound over the layout alphabets, and every ordered pair of token kinds x 16 gap fillings x 3 trailers - complete over both tables); all those texts are replayed into the real tokenizer; re-layouts of whole programs are validated by a TLC trace specification that first decides from the specification whether the re-layout is legal and then requires unchanged tokens and parse result.",
   note="Trusted: spec/GramLayout.tla as the reading of the rule (`;` counts as both; which line break of a gap carries the terminator is left open). Bounded: length <= 5/6; pairs table complete; 300 / 10 000 program re-layouts.",
   technique=MB + "bounded-exhaustive replay of TLC-generated layouts into tokenizer.rs + TLC trace validation of program re-layouts"),
}
PIPE_NOTE = "Trusted: spec/GramEval.tla, GramNorm.tla, GramTyping.tla, GramSem.tla as the language definition; TLC; the harness's unparser (fully parenthesised, fresh names) and Term<->JSON projection. Bounded: exhaustive over all well-scoped programs <= 6 nodes (quick; 7 thorough) with 1- and 2-definition groups; generated families (perturbations, punched holes, junk annotations, alias chains, big operands, recursion) beyond. Verdicts on which the specification's fuel runs out are inconclusive."
PIPE_TECH = MB + "TLC checks Progress/Preservation/SemAgree on every enumerated program and prescribes verdict, type and outcome; replay through the real tokenize/parse/type_check/step in supervised worker processes + TLC trace validation (Trace_Pipeline) of recorded pipeline events"
CHECKS.update({
 "C01": dict(level="model_checking", design_ref="DESIGN.md section 4, C01", note=PIPE_NOTE, technique=PIPE_TECH,
   text="TLC proves on the specification that typing + the definition-order rule imply progress for every program up to the size bound, and emits each program with its prescribed verdict and outcome; every program is run through the real front end and evaluator and must not end stuck for a reason other than division by zero; events of larger generated programs (holes, omitted annotations, perturbations) are judged by TLC with StuckReason evaluated on the recorded final term."),
 "C02": dict(level="model_checking", design_ref="DESIGN.md section 4, C02", note=PIPE_NOTE, technique=PIPE_TECH,
   text="The small-step semantics (GramEval) is checked by TLC against an independent big-step environment/store semantics (GramSem) on every enumerated program; the real evaluator's final value must equal the prescribed one on all of them (every operator incl. negative and boundary-equal literals at a smaller size); for big-operand and recursive programs every recorded step()/final value is recomputed by TLC with exact limb arithmetic."),
 "C03": dict(level="model_checking", design_ref="DESIGN.md section 4, C03", note=PIPE_NOTE, technique=PIPE_TECH,
   text="An independent checker for explicitly typed terms written in TLA+ (GramTyping) prescribes accept/reject for every hole-free program up to the size bound and judges the elaborated term and reported type of every accepted program, including programs with holes, single-node perturbations, dead-code junk in annotations and punched higher-order programs."),
 "C04": dict(level="model_checking", design_ref="DESIGN.md section 4, C04", note=PIPE_NOTE, technique=PIPE_TECH,
   text="TLC checks preservation along the first steps of every well-typed enumerated program on the specification, and for every accepted terminating program (enumerated and generated) types the REAL value with GramTyping and requires conversion with the REAL reported type."),
 "C05": dict(level="model_checking", design_ref="DESIGN.md section 4, C05", note=PIPE_NOTE, technique=PIPE_TECH,
   text="Every fully annotated program up to the size bound that the specification types must be accepted by the real checker with an elaboration identical to the source; alias-chain groups in every order, recursive and big-operand families must be accepted without crashing; SameModuloHoles(source, elaboration) is evaluated by TLC on every accepted program."),
 "C07": dict(level="model_checking", design_ref="DESIGN.md section 4, C07",
   text="The productions are generated from /repo/grammar.y into the specification; TLC enumerates every sentence up to the token bound with derivation and syntax tree (left association, parentheses honoured, groups flattened) and every syntax tree up to a node bound with redundant parentheses; the real parser must accept each sentence with exactly that tree, and must reject every one of the 28^k token strings (k <= bound) that is not a sentence, with scoping prevented from masking a wrong acceptance; unambiguity is checked over the complete enumeration.",
   note="Trusted: GramGrammar!Ast / GramUnparse as the reading of the tree grammar.y specifies; the real tokenizer (checked by C09/C10) turns lexemes into tokens. Bounded: sentences and token strings <= 5 tokens (quick) / 6 (thorough); trees <= 5-7 nodes.",
   technique=MB + "TLC enumeration of grammar.y derivations and syntax trees replayed into parser.rs, exhaustive reject direction over all token strings"),
})

CHECKS.update({
 "C08": dict(level="model_checking", design_ref="DESIGN.md section 4, C08",
   text="GramScope states the scoping rules of the property on named surface terms; TLC enumerates every named term up to the size bound over two names and `_` (all binder forms, chained and parenthesised groups, well scoped or not) with the verdict (number of scoping errors, De Bruijn index of every occurrence, holes); the real parser must reject exactly the ill-scoped ones and bind every occurrence as prescribed, under four name pools (keyword prefixes, non-ASCII); random deep terms are judged by TLC (Trace_Scope).",
   note="Trusted: GramScope!R as the reading of the scoping rules; the text handed to the parser is the specification's rendering U(t) (checked by TLC for random terms). Bounded: terms <= 6 nodes (quick) / 7 (thorough); random terms to binder depth 40.",
   technique=MB + "bounded-exhaustive replay of TLC-generated named terms into parser.rs + TLC trace validation of random deep terms"),
 "C16": dict(level="model_checking", design_ref="DESIGN.md section 4, C16",
   text="Round-trip inputs are TLC enumerations (all syntax trees incl. implicit binders and redundant parentheses, all well-scoped named terms, all programs over every former, each up to a size bound - so every term former occurs in every operand position of every other); the real to_string()/tokenize/parse round trip must give a structurally identical term (also for the elaborated term and type of accepted programs); TLC judges a sample of the recorded (term, re-read term) pairs with the TLA+ predicate SameRead.",
   note="Trusted: SameRead (indices, implicitness, operators, literals, holes; names not compared). The bulk comparison is done by the harness with the same rule; TLC's verdict covers the sampled events. Bounded by the enumerations' size bounds.",
   technique=MB + "TLC-generated terms driven through Display + tokenizer + parser, TLC trace validation of the recorded round trips"),
})

CHECKS.update({
 "C15": dict(level="model_checking", design_ref="DESIGN.md section 4, C15",
   text="GramListing states what an excerpt must show; TLC enumerates every small text (multi-byte characters, blanks, several lines) with every range on character boundaries and the prescribed lines / must-mark / may-mark columns, and the real listing() output is read back and compared. Diagnostics' ranges are checked on planted faults with an unambiguous offender, planted on TLC-enumerated sentences (scoping) and TLC-enumerated well-typed programs plus the corpus (type faults), with non-ASCII names before the fault, preceding lines and multi-line subexpressions.",
   note="Trusted: GramListing as the reading of the excerpt clause; ranges of diagnostics are read back from the coloured rendering; the offender's span comes from the token positions TLC prescribes (scoping) or from the span-recording unparser of the harness (type faults). Bounded: texts 3 lines x 2 characters (quick); trees <= 5 nodes; programs <= 5 nodes.",
   technique=MB + "bounded-exhaustive replay of TLC-generated (text, range) pairs into error.rs listing + planted-fault replay on TLC-enumerated sentences and programs"),
})

CHECKS.update({
 "C12": dict(level="model_checking", design_ref="DESIGN.md section 4, C12",
   text="TLC generates (pattern, instance) pairs by punching holes at every position and every shift into every well-typed program up to the size bound (one and two holes, shared identities, both sides, occurs-check configurations, reflexive/reduct pairs); the real unify is called on real terms with one shared cell per hole in both argument orders, and each recorded call (terms before, result, cell contents after) is judged by TLC with the property's own predicates: acyclic store, scope safety of every solution at its hole's home depth, definitional equality after filling the holes.",
   note="Trusted: Res / Occs / Conv of the specification as the meaning of 'filling the holes makes the terms definitionally equal'. Hosts <= 4 nodes (quick) / 5 (thorough), without divergent definitions. Empty definitions context (contexts with definitions are C18's subject).",
   technique=MB + "TLC-generated hole-punched pairs driven through unifier.rs, TLC trace validation of every recorded unification against declarative predicates"),
})

CHECKS.update({
 "C06": dict(level="model_checking", design_ref="DESIGN.md section 4, C06",
   text="TLC checks on the specification that weak-head normalisation of a closed ground program gives its value, that conversion coincides with equality of normal forms and that a term is convertible with itself and its reducts (every accepted program up to the size bound); the real normalize_weak_head and evaluate must both give the prescribed literal on every enumerated ground program, and TLC-generated pairs (reflexive, reducts, same-type partners labelled with the normal-form verdict) go through the real unify in both argument orders, each recorded call judged by TLC.",
   note="Trusted: Whnf / Nf / Conv of spec/GramNorm.tla; normal forms are compared modulo names and parameter annotations. Bounded: programs <= 6 (quick) / 7; pair hosts <= 5 / 6 against a pool of 14 partner terms.",
   technique=MB + "TLC coherence theorems on the specification + replay of prescribed values into normalizer.rs/evaluator.rs + TLC trace validation of unify on generated pairs"),
 "C18": dict(level="model_checking", design_ref="DESIGN.md section 4, C18",
   text="Outer parameters and definition groups of TLC-enumerated and generated closed programs are peeled into real typing/definitions contexts (with the code's offsets); type_check, normalize_weak_head and unify run on the open term under the context and type_check on the closed program; TLC judges every event: same verdict, the open type closed over the context convertible with the closed type, the reported open type is the specification's type of the open term in its own context representation, contexts identical (structure and Rc identity) before and after - also for programs rejected part-way through a nested scope.",
   note="Trusted: GramTyping contexts ([ty, def, len] entries, deliberately not the code's (term, offset) pairs) and Close/CloseType of Trace_Context. Contexts are hole-free. Hosts <= 6 nodes (quick) plus 300 generated larger programs, 1..4 binders peeled.",
   technique=MB + "TLC trace validation of context events recorded from type_checker.rs / normalizer.rs / unifier.rs on TLC-enumerated hosts"),
})

PENDING = "check not built yet in this session (planned in DESIGN.md section 4); will be claimed once its TLA+ model and conformance harness exist"
NOT_APPLICABLE = {p: PENDING for p in ["C%02d" % i for i in range(1, 20)]}
