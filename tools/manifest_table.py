HOOK_COMMITS = []
MB = "model-based verification: explicit TLA+ specification checked by TLC; "
CHECKS = {
 "C11": dict(level="model_checking", design_ref="DESIGN.md section 4, C11",
   text="TLC checks the statement's algebraic laws and agreement with a named-term reference semantics on every hole-free term up to the size bound (all formers incl. 2/3-definition groups), then every prescribed shift/open/free-variable result is replayed into the real functions; random large terms are judged by a TLC trace specification. Exhaustive inside the bound, randomised beyond it.",
   note="Trusted: spec/GramTerm.tla + spec/GramNamed.tla as the meaning of capture-avoiding substitution; TLC; the harness's Term<->JSON projection. Bounded: size <= 5 (quick) / 7 (thorough), cutoffs 0..2, amounts -2..2.",
   technique=MB + "bounded-exhaustive replay of TLC-generated behaviours into de_bruijn.rs + TLC trace validation of recorded calls"),
}
PENDING = "check not built yet in this session (planned in DESIGN.md section 4); will be claimed once its TLA+ model and conformance harness exist"
NOT_APPLICABLE = {p: PENDING for p in ["C%02d" % i for i in range(1, 20)]}
