HOOK_COMMITS = []
MB = "model-based verification: explicit TLA+ specification checked by TLC; "
CHECKS = {
 "C11": dict(level="model_checking", design_ref="DESIGN.md section 4, C11",
   text="TLC checks the statement's algebraic laws and agreement with a named-term reference semantics on every hole-free term up to the size bound (all formers incl. 2/3-definition groups), then every prescribed shift/open/free-variable result is replayed into the real functions; random large terms are judged by a TLC trace specification. Exhaustive inside the bound, randomised beyond it.",
   note="Trusted: spec/GramTerm.tla + spec/GramNamed.tla as the meaning of capture-avoiding substitution; TLC; the harness's Term<->JSON projection. Bounded: size <= 5 (quick) / 7 (thorough), cutoffs 0..2, amounts -2..2.",
   technique=MB + "bounded-exhaustive replay of TLC-generated behaviours into de_bruijn.rs + TLC trace validation of recorded calls"),
 "C09": dict(level="model_checking", design_ref="DESIGN.md section 4, C09",
   text="The tokenizer is specified as a character-level state machine (spec/GramLexer.tla) that TLC checks against the declarative statement of the property (Partition, MaximalMunch, KeywordsWholeWord, LiteralShape, EveryBadSymbolReported) on all texts up to the length bound over five focused alphabets; every text with its prescribed tokens / error ranges is replayed into the real tokenize(); random Unicode texts are judged by a TLC trace specification (machine equality, the declarative predicates on the observation, literal values recomputed with exact limb arithmetic).",
   note="Trusted: the declarative predicates as the reading of the statement; Unicode classes and grapheme boundaries as computed by Rust's char methods / unicode-segmentation in the harness; error ranges are read back from the coloured diagnostic. Bounded: length <= 5 (quick) / 6 (thorough) per alphabet; random texts to 400 / 2000 characters.",
   technique=MB + "bounded-exhaustive replay of TLC-generated texts into tokenizer.rs + TLC trace validation of recorded tokenizations"),
 "C10": dict(level="model_checking", design_ref="DESIGN.md section 4, C10",
   text="TLC checks on the lexer specification that the two 28-way line-break tables are equivalent to the one-sentence rule of the statement and that dropping comments, padding blanks, repeating line breaks and exchanging a separating line break with `;` leave the token stream unchanged (all texts up to the bound over the layout alphabets, and every ordered pair of token kinds x 16 gap fillings x 3 trailers - complete over both tables); all those texts are replayed into the real tokenizer; re-layouts of whole programs are validated by a TLC trace specification that first decides from the specification whether the re-layout is legal and then requires unchanged tokens and parse result.",
   note="Trusted: spec/GramLayout.tla as the reading of the rule (`;` counts as both; which line break of a gap carries the terminator is left open). Bounded: length <= 5/6; pairs table complete; 300 / 10 000 program re-layouts.",
   technique=MB + "bounded-exhaustive replay of TLC-generated layouts into tokenizer.rs + TLC trace validation of program re-layouts"),
}
PENDING = "check not built yet in this session (planned in DESIGN.md section 4); will be claimed once its TLA+ model and conformance harness exist"
NOT_APPLICABLE = {p: PENDING for p in ["C%02d" % i for i in range(1, 20)]}
